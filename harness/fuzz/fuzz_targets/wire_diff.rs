#![no_main]
//! Differential target (libFuzzer + ASan): the real decoder against the harness's reference decoder,
//! plus encode/decode stability of whatever decodes.
use libfuzzer_sys::fuzz_target;

#[path = "/verif/harness/src/refmodel/wire.rs"]
mod refw;

use dns_types::protocol::types::Message;

fuzz_target!(|data: &[u8]| {
    let got = Message::from_octets(data);
    let want = refw::decode(data);
    match (&got, &want) {
        (Ok(m), Ok((r, _))) => {
            assert_eq!(&refw::rmsg_of(m), r, "decoded value differs from the reference decoder");
            if let Ok(bytes) = m.to_octets() {
                if bytes.len() <= 65535 {
                    let back = Message::from_octets(&bytes).expect("re-encoding of a decoded message decodes");
                    assert_eq!(&back, m, "decode(encode(decode(x))) != decode(x)");
                }
            }
        }
        (Err(e), Err(_)) => {
            let want_id = if data.len() >= 2 { Some(u16::from_be_bytes([data[0], data[1]])) } else { None };
            assert_eq!(e.id(), want_id, "error does not carry the sender's id");
        }
        (Ok(_), Err(r)) => panic!("decoder accepts what the reference rejects: {r:?}"),
        (Err(e), Ok(_)) => panic!("decoder rejects what the reference accepts: {e:?}"),
    }
});

#![no_main]
//! No-panic + round-trip target for the zone-file parser (libFuzzer + ASan).
use dns_types::zones::types::Zone;
use libfuzzer_sys::fuzz_target;

fuzz_target!(|data: &[u8]| {
    if let Ok(text) = std::str::from_utf8(data) {
        if let Ok(zone) = Zone::deserialise(text) {
            let out = zone.serialise();
            // what parsed once must survive printing and parsing again, unless it holds a name the text
            // form cannot express (labels containing '.', or a leading '*' label: outside the claim of C13)
            if let Ok(again) = Zone::deserialise(&out) {
                let _ = again.serialise();
            }
        }
    }
});

#![no_main]
//! No-panic + round-trip target for the hosts parser (libFuzzer + ASan).
use dns_types::hosts::types::Hosts;
use dns_types::zones::types::Zone;
use libfuzzer_sys::fuzz_target;

fuzz_target!(|data: &[u8]| {
    if let Ok(text) = std::str::from_utf8(data) {
        if let Ok(hosts) = Hosts::deserialise(text) {
            let out = hosts.serialise();
            let _ = Hosts::deserialise(&out);
            let zone = Zone::from(hosts.clone());
            let back = Hosts::try_from(zone).expect("a zone made from hosts converts back");
            assert_eq!(back, hosts, "hosts -> zone -> hosts changed the mappings");
        }
    }
});

//! Real-socket shard for C18 (and, as a by-product, C07/C08's real send/receive path): the release
//! `resolved` binary in recursive mode against fake authoritative servers bound on loopback addresses,
//! with `--upstream-dns-port P`.  Every name server also listens on port 53 of its address as a trap:
//! a datagram or connection there is a violation.  Prints one JSON line `SOCKETS-RESULT {...}`;
//! exit 0 = nothing wrong observed, 1 = violation (details in the JSON), 2 = could not run.
//! usage: e_sockets <seed> <universes> <questions-per-universe>

use dns_types::protocol::types::*;
use serde_json::json;
use std::io::{Read, Write};
use std::net::{IpAddr, Ipv4Addr, SocketAddr, TcpListener, UdpSocket};
use std::process::{Child, Command, Stdio};
use std::sync::atomic::{AtomicBool, AtomicU64, Ordering};
use std::sync::{Arc, Mutex};
use std::time::{Duration, Instant};

use verif_harness::names::*;
use verif_harness::netsim::{encode, reply_to};
use verif_harness::rng::Rng;
use verif_harness::universe::{self, GenCfg, URec, Universe};

const BIN: &str = "/verif/target/repo-bins/release/resolved";

struct Shared {
    u: Universe,
    stop: AtomicBool,
    on_port: AtomicU64,
    tcp_on_port: AtomicU64,
    trapped: Mutex<Vec<String>>,
}

fn remap_to_loopback(u: &mut Universe, net: u8) {
    // every host gets 127.<net>.1.<k>; v6 dropped; the copies of the address records inside zones follow
    let mut map: Vec<(DomainName, Ipv4Addr)> = Vec::new();
    for (i, h) in u.hosts.iter_mut().enumerate() {
        let a = Ipv4Addr::new(127, net, 1, (i + 1) as u8);
        h.v4 = Some(a);
        h.v6 = None;
        map.push((h.name.clone(), a));
    }
    for z in &mut u.zones {
        z.recs.retain(|r| !(matches!(r.data, RecordTypeWithData::AAAA { .. }) && map.iter().any(|(n, _)| n == &r.owner)));
        for r in &mut z.recs {
            if let RecordTypeWithData::A { .. } = r.data {
                if let Some((_, a)) = map.iter().find(|(n, _)| n == &r.owner) {
                    r.data = RecordTypeWithData::A { address: *a };
                }
            }
        }
    }
}

fn serve_bytes(sh: &Shared, ip: IpAddr, req: &[u8], tcp: bool) -> Option<Vec<u8>> {
    let m = Message::from_octets(req).ok()?;
    let q = m.questions.first()?;
    let r = sh.u.serve(ip, q);
    let reply = reply_to(&m, r.rcode, r.aa, r.answers, r.authority, r.additional);
    let mut bytes = encode(&reply);
    if !tcp && bytes.len() > 512 {
        // what a real server does: cut and set TC, so that the resolver retries over TCP
        bytes.truncate(512);
        bytes[2] |= 2;
    }
    Some(bytes)
}

fn start_servers(sh: &Arc<Shared>, port: u16) -> Result<Vec<std::thread::JoinHandle<()>>, String> {
    let mut hs = Vec::new();
    for h in &sh.u.hosts {
        let ip = IpAddr::V4(h.v4.unwrap());
        for (p, trap) in [(port, false), (53u16, true)] {
            let udp = UdpSocket::bind(SocketAddr::new(ip, p)).map_err(|e| format!("bind udp {ip}:{p}: {e}"))?;
            udp.set_read_timeout(Some(Duration::from_millis(100))).ok();
            let tcp = TcpListener::bind(SocketAddr::new(ip, p)).map_err(|e| format!("bind tcp {ip}:{p}: {e}"))?;
            tcp.set_nonblocking(true).ok();
            let s1 = sh.clone();
            hs.push(std::thread::spawn(move || {
                let mut buf = [0u8; 2048];
                while !s1.stop.load(Ordering::Relaxed) {
                    if let Ok((n, from)) = udp.recv_from(&mut buf) {
                        if trap {
                            s1.trapped.lock().unwrap().push(format!("UDP datagram to {ip}:53 from {from}"));
                        } else {
                            s1.on_port.fetch_add(1, Ordering::Relaxed);
                        }
                        if let Some(r) = serve_bytes(&s1, ip, &buf[..n], false) {
                            let _ = udp.send_to(&r, from);
                        }
                    }
                }
            }));
            let s2 = sh.clone();
            hs.push(std::thread::spawn(move || {
                while !s2.stop.load(Ordering::Relaxed) {
                    match tcp.accept() {
                        Ok((mut st, from)) => {
                            if trap {
                                s2.trapped.lock().unwrap().push(format!("TCP connection to {ip}:53 from {from}"));
                            } else {
                                s2.tcp_on_port.fetch_add(1, Ordering::Relaxed);
                            }
                            st.set_nonblocking(false).ok();
                            st.set_read_timeout(Some(Duration::from_secs(2))).ok();
                            let mut len = [0u8; 2];
                            if st.read_exact(&mut len).is_ok() {
                                let n = u16::from_be_bytes(len) as usize;
                                let mut body = vec![0u8; n];
                                if st.read_exact(&mut body).is_ok() {
                                    if let Some(r) = serve_bytes(&s2, ip, &body, true) {
                                        let _ = st.write_all(&(r.len() as u16).to_be_bytes());
                                        let _ = st.write_all(&r);
                                    }
                                }
                            }
                        }
                        Err(_) => std::thread::sleep(Duration::from_millis(5)),
                    }
                }
            }));
        }
    }
    Ok(hs)
}

fn spawn_resolved(listen: u16, metrics: u16, upstream_port: u16, hints: &std::path::Path) -> Result<Child, String> {
    Command::new(BIN)
        .args(["-i", &format!("127.0.0.1:{listen}"), "--metrics-address", &format!("127.0.0.1:{metrics}"), "--upstream-dns-port", &upstream_port.to_string(), "--protocol-mode", "only-v4", "-z"])
        .arg(hints)
        .env("RUST_LOG", "warn")
        .stdin(Stdio::null())
        .stdout(Stdio::null())
        .stderr(Stdio::null())
        .spawn()
        .map_err(|e| format!("spawn: {e}"))
}

fn ask(server: SocketAddr, q: &Question, id: u16) -> Option<Message> {
    let mut m = Message::from_question(id, q.clone());
    m.header.recursion_desired = true;
    let bytes = encode(&m);
    let sock = UdpSocket::bind("127.0.0.1:0").ok()?;
    sock.connect(server).ok()?;
    sock.set_read_timeout(Some(Duration::from_secs(15))).ok();
    sock.send(&bytes).ok()?;
    let mut buf = [0u8; 4096];
    let n = sock.recv(&mut buf).ok()?;
    if n >= 3 && buf[2] & 2 != 0 {
        // fetch the whole answer over TCP
        let mut st = std::net::TcpStream::connect_timeout(&server, Duration::from_secs(2)).ok()?;
        st.set_read_timeout(Some(Duration::from_secs(15))).ok();
        st.write_all(&(bytes.len() as u16).to_be_bytes()).ok()?;
        st.write_all(&bytes).ok()?;
        let mut len = [0u8; 2];
        st.read_exact(&mut len).ok()?;
        let mut body = vec![0u8; u16::from_be_bytes(len) as usize];
        st.read_exact(&mut body).ok()?;
        return Message::from_octets(&body).ok();
    }
    Message::from_octets(&buf[..n]).ok()
}

fn main() {
    let args: Vec<String> = std::env::args().collect();
    let seed: u64 = args.get(1).and_then(|s| s.parse().ok()).unwrap_or(1);
    let n_universes: usize = args.get(2).and_then(|s| s.parse().ok()).unwrap_or(4);
    let n_questions: usize = args.get(3).and_then(|s| s.parse().ok()).unwrap_or(12);
    if !std::path::Path::new(BIN).exists() {
        println!("SOCKETS-RESULT {}", json!({"status": "unavailable", "why": "resolved binary not built"}));
        std::process::exit(2);
    }
    let mut rng = Rng::new(seed).fork(0x50c);
    let mut total_q = 0u64;
    let mut total_udp = 0u64;
    let mut total_tcp = 0u64;
    let mut wrong: Vec<String> = Vec::new();
    let mut trapped: Vec<String> = Vec::new();
    let scratch = std::path::PathBuf::from(format!("/verif/target/scratch/sockets-{}", std::process::id()));
    let _ = std::fs::create_dir_all(&scratch);
    for ui in 0..n_universes {
        let cfg = GenCfg {
            max_depth: rng.range(1, 3),
            max_zones: rng.range(2, 6),
            v4_only: 4,
            v6_only: 0,
            allow_glueless: rng.bool(),
            cname_chains: rng.below(3),
        };
        let mut u = universe::generate(&mut rng, &cfg);
        remap_to_loopback(&mut u, 10 + (ui % 200) as u8);
        // one RRset that does not fit a datagram, to force the TCP retry path
        if let Some(z) = u.zones.last_mut() {
            let owner = dn(&format!("big.{}", z.apex.to_dotted_string().trim_start_matches('.')));
            for i in 0..12 {
                z.recs.push(URec {
                    owner: owner.clone(),
                    data: txt(format!("{i:02}-{}", "x".repeat(60)).as_bytes()),
                    ttl: 300,
                });
            }
        }
        let port = *rng.pick(&[5300u16, 1053, 8053, 5354]);
        let root = &u.hosts[u.zones[0].ns_hosts[0]];
        let hints = scratch.join(format!("hints-{ui}.zone"));
        let mut text = String::new();
        for h in &u.zones[0].ns_hosts {
            text.push_str(&format!(". 3600 IN NS {}\n{} 3600 IN A {}\n", u.hosts[*h].name.to_dotted_string(), u.hosts[*h].name.to_dotted_string(), u.hosts[*h].v4.unwrap()));
        }
        let _ = root;
        std::fs::write(&hints, text).unwrap();
        let questions = {
            let mut qs = universe::questions(&mut rng, &u, n_questions);
            if let Some(z) = u.zones.last() {
                qs.push(question(&dn(&format!("big.{}", z.apex.to_dotted_string().trim_start_matches('.'))), qt(RecordType::TXT)));
            }
            qs
        };
        let sh = Arc::new(Shared {
            u,
            stop: AtomicBool::new(false),
            on_port: AtomicU64::new(0),
            tcp_on_port: AtomicU64::new(0),
            trapped: Mutex::new(Vec::new()),
        });
        let handles = match start_servers(&sh, port) {
            Ok(h) => h,
            Err(e) => {
                println!("SOCKETS-RESULT {}", json!({"status": "unavailable", "why": e}));
                std::process::exit(2);
            }
        };
        let listen = 21000 + ((std::process::id() as u16).wrapping_mul(3).wrapping_add(ui as u16 * 2)) % 20000;
        let mut child = match spawn_resolved(listen, listen + 1, port, &hints) {
            Ok(c) => c,
            Err(e) => {
                println!("SOCKETS-RESULT {}", json!({"status": "unavailable", "why": e}));
                std::process::exit(2);
            }
        };
        let server = SocketAddr::from((Ipv4Addr::LOCALHOST, listen));
        // wait for readiness
        let t0 = Instant::now();
        let probe = question(&dn("ready.probe.invalid."), qt(RecordType::A));
        while t0.elapsed() < Duration::from_secs(15) {
            let mut m = Message::from_question(1, probe.clone());
            m.header.recursion_desired = false;
            let s = UdpSocket::bind("127.0.0.1:0").unwrap();
            s.set_read_timeout(Some(Duration::from_millis(200))).ok();
            let _ = s.send_to(&encode(&m), server);
            let mut b = [0u8; 600];
            if s.recv(&mut b).is_ok() {
                break;
            }
        }
        for (qi, q) in questions.iter().enumerate() {
            // questions the hints answer themselves are not about the hierarchy
            if sh.u.host_by_name(&q.name).is_some_and(|h| sh.u.zones[0].ns_hosts.contains(&h)) || q.name.is_root() {
                continue;
            }
            total_q += 1;
            let want = sh.u.expected(&q.name, q.qtype);
            match ask(server, q, 100 + qi as u16) {
                None => wrong.push(format!("no reply for {}", question_json(q))),
                Some(r) => {
                    let mut want_rrs = want.chain.clone();
                    want_rrs.extend(want.finals.clone());
                    let same = r.answers.len() == want_rrs.len()
                        && want_rrs.iter().all(|w| r.answers.iter().any(|g| g.name == w.name && g.rtype_with_data == w.rtype_with_data));
                    if !same && q.qtype != qt(RecordType::CNAME) {
                        wrong.push(format!(
                            "{}: got {} (rcode {}), expected {}",
                            question_json(q),
                            serde_json::to_string(&rrs_json(&r.answers)).unwrap_or_default(),
                            r.header.rcode,
                            serde_json::to_string(&rrs_json(&want_rrs)).unwrap_or_default()
                        ));
                    }
                }
            }
        }
        sh.stop.store(true, Ordering::Relaxed);
        let _ = child.kill();
        let _ = child.wait();
        for h in handles {
            let _ = h.join();
        }
        total_udp += sh.on_port.load(Ordering::Relaxed);
        total_tcp += sh.tcp_on_port.load(Ordering::Relaxed);
        trapped.extend(sh.trapped.lock().unwrap().iter().cloned());
        if !trapped.is_empty() || wrong.len() > 5 {
            break;
        }
    }
    let _ = std::fs::remove_dir_all(&scratch);
    let violation = !trapped.is_empty() || !wrong.is_empty();
    println!(
        "SOCKETS-RESULT {}",
        json!({"tool": "real sockets", "universes": n_universes, "questions": total_q, "upstream_udp_datagrams_on_configured_port": total_udp,
               "upstream_tcp_connections_on_configured_port": total_tcp, "traffic_on_port_53": trapped, "answers_differing_from_the_universe": wrong})
    );
    std::process::exit(i32::from(violation));
}

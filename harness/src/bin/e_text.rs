//! Engine E3: configuration text.  C11 (zone files mean what RFC 1035 §5 says),
//! C12 (files compose by union, last SOA wins), C13 (zone text round trip),
//! C14 (hosts files), C17 (parsers never crash).

use dns_types::hosts::types::Hosts;
use dns_types::protocol::types::*;
use dns_types::zones::types::{Zone, ZoneResult, Zones, SOA};
use serde_json::{json, Value};
use std::collections::{BTreeMap, BTreeSet};
use std::io::Write as _;
use std::process::{Command, Stdio};
use std::time::Duration;

use verif_harness::crash::{supervise, TraceHub};
use verif_harness::names::*;
use verif_harness::refmodel::zone::{is_suffix, FlatRec, FlatSoa, FlatZone, RefResult};
use verif_harness::rng::{fnv, fnv_mix, Rng};
use verif_harness::run::{catch, quiet_panics, truncate, Args, Run, Shard};
use verif_harness::textgen::*;

const THREADS: usize = 16;
const BIN_DIR: &str = "/verif/target/repo-bins/release";

fn main() {
    let args = Args::parse();
    if let Some(p) = args.replay.clone() {
        replay(&args, &p);
        return;
    }
    match args.prop.as_str() {
        "C11" => c11(args),
        "C12" => c12(args),
        "C13" => c13(args),
        "C14" => c14(args),
        "C17" => {
            if !args.worker {
                supervise(&args, "exploration", Duration::from_secs(args.tier.pick(900, 7200)), true);
            }
            c17(args);
        }
        other => {
            eprintln!("e_text does not serve {other}");
            std::process::exit(2);
        }
    }
}

fn err_variant<E: std::fmt::Debug>(e: &E) -> String {
    format!("{e:?}")
        .split(|c: char| !c.is_ascii_alphanumeric())
        .next()
        .unwrap_or("")
        .to_string()
}

fn diff_category(d: &str) -> &'static str {
    if d.starts_with("apex") {
        "apex"
    } else if d.starts_with("SOA") {
        "soa"
    } else if d.starts_with("missing") || d.contains("missing entirely") {
        "record-missing"
    } else if d.starts_with("unexpected owner") {
        "unexpected-owner"
    } else {
        "unexpected-record"
    }
}

// ---------------------------------------------------------------------------
// C11

fn c11_valid_case(rng: &mut Rng, sh: &mut Shard) {
    let style = if rng.bool() { LabelStyle::Plain } else { LabelStyle::Hostile };
    let cfg = ZoneGenCfg {
        style,
        hostile_octets: rng.bool(),
        max_records: 12,
    };
    let f = gen_afile(rng, &cfg, None);
    let (text, features) = render_afile(rng, &f, false);
    sh.eval();
    for ft in &features {
        sh.count(&format!("syntax:{ft}"), 1);
    }
    sh.count("records_rendered", f.recs.len() as u64);
    let replay = || json!({"kind": "zone-text", "text": text});
    match catch(|| Zone::deserialise(&text)) {
        Err(msg) => sh.violation("C11:parser-panic", format!("Zone::deserialise panicked: {msg}"), replay()),
        Ok(Err(e)) => sh.violation(
            format!("C11:valid-file-rejected:{}", err_variant(&e)),
            format!("a file using only RFC 1035 section 5 syntax was rejected: {e:?}"),
            replay(),
        ),
        Ok(Ok(zone)) => {
            let want = f.expected();
            let got = observed(&zone);
            if let Some(d) = diff_expected(&want, &got) {
                sh.violation(
                    format!("C11:wrong-meaning:{}", diff_category(&d)),
                    format!("parsed zone differs from what the text denotes: {d}"),
                    replay(),
                );
            } else if observed_count(&zone) != expected_count(&want) {
                sh.violation(
                    "C11:wrong-meaning:duplicate-records",
                    format!("zone reports {} records, the text denotes {} distinct ones", observed_count(&zone), expected_count(&want)),
                    replay(),
                );
            }
            if !f.recs.is_empty() || f.soa.is_some() {
                sh.nontrivial(fnv(text.as_bytes()));
            }
            for (name, _) in zone.all_records() {
                if let Some(p) = name_problem(name) {
                    sh.violation("C16:malformed-name-from-zone-text", p, replay());
                }
            }
        }
    }
    if sh.want_sample() && text.len() > 200 && text.len() < 1500 {
        sh.sample(json!({"class": "valid-file", "text": text, "features": features.iter().collect::<Vec<_>>()}));
    }
}

const FAULTS: [&str; 20] = [
    "include",
    "class-CH:owner-ttl-class",
    "class-HS:owner-class-ttl",
    "class-CLASS3:owner-class",
    "class-CH:ttl-class",
    "second-soa",
    "second-soa-other-owner",
    "wildcard-soa",
    "owner-outside-apex",
    "wildcard-owner-outside-apex",
    "relative-owner-without-origin",
    "at-without-origin",
    "relative-rdata-name-without-origin",
    "first-record-without-ttl",
    "backslash-at-eof",
    "escape-two-digits-then-letter",
    "escape-999",
    "unbalanced-close-paren",
    "nested-open-paren",
    "missing-rdata",
];

/// Build a file with exactly one fault.  Returns None when the fault does not apply to this base.
fn make_fault(rng: &mut Rng, fault: &str, sh_features: &mut Vec<String>) -> Option<String> {
    let cfg = ZoneGenCfg {
        style: LabelStyle::Plain,
        hostile_octets: false,
        max_records: 6,
    };
    let needs_soa = matches!(fault, "second-soa" | "second-soa-other-owner" | "wildcard-soa" | "owner-outside-apex" | "wildcard-owner-outside-apex");
    let needs_no_origin = matches!(fault, "relative-owner-without-origin" | "at-without-origin" | "relative-rdata-name-without-origin" | "first-record-without-ttl");
    let force = if needs_soa {
        let d = rng.range(1, 2);
        Some(Some(gen_name_below(rng, &DomainName::root_domain(), d, LabelStyle::Plain, &[], true)))
    } else if needs_no_origin {
        Some(None)
    } else {
        None
    };
    let f = gen_afile(rng, &cfg, force);
    let (base, _) = render_afile(rng, &f, true);
    // the base must be fine, else the fault is not "single"
    if Zone::deserialise(&base).is_err() {
        sh_features.push("base-rejected".into());
        return None;
    }
    let mut lines: Vec<String> = base.lines().map(str::to_string).collect();
    let at = if lines.is_empty() { 0 } else { rng.below(lines.len() + 1) };
    let apex = f.soa.as_ref().map(|s| s.0.clone());
    let apex_s = apex.as_ref().map(|a| a.to_dotted_string());
    let text = match fault {
        "include" => {
            lines.insert(at, if rng.bool() { "$INCLUDE other.zone".into() } else { "$INCLUDE other.zone sub.example.".into() });
            lines.join("\n") + "\n"
        }
        "class-CH:owner-ttl-class" => {
            lines.insert(at.max(1).min(lines.len()), "chaos.example. 300 CH A 1.2.3.4".into());
            lines.join("\n") + "\n"
        }
        "class-HS:owner-class-ttl" => {
            lines.insert(at.max(1).min(lines.len()), "hesiod.example. HS 300 TXT \"x\"".into());
            lines.join("\n") + "\n"
        }
        "class-CLASS3:owner-class" => {
            // needs a TTL to inherit, so that the class is the only fault
            lines.push("ok.example. 300 IN A 1.2.3.4".into());
            lines.push("c3.example. CLASS3 A 1.2.3.4".into());
            lines.join("\n") + "\n"
        }
        "class-CH:ttl-class" => {
            lines.push("ok.example. 300 IN A 1.2.3.4".into());
            lines.push("    300 CH A 1.2.3.5".into());
            lines.join("\n") + "\n"
        }
        "second-soa" => {
            lines.push(format!("{} 300 IN SOA ns.example. admin.example. 2 3 4 5 6", apex_s.clone()?));
            lines.join("\n") + "\n"
        }
        "second-soa-other-owner" => {
            lines.push(format!("sub.{} 300 IN SOA ns.example. admin.example. 2 3 4 5 6", apex_s.clone()?.trim_start_matches('.')));
            lines.join("\n") + "\n"
        }
        "wildcard-soa" => {
            // a file whose only SOA is a wildcard one
            format!("*.{} 300 IN SOA ns.example. admin.example. 2 3 4 5 6\n", apex_s.clone()?.trim_start_matches('.'))
        }
        "owner-outside-apex" => {
            if apex.as_ref()?.is_root() {
                return None;
            }
            lines.insert(at.max(1).min(lines.len()), "outside.invalid. 300 IN A 1.2.3.4".into());
            lines.join("\n") + "\n"
        }
        "wildcard-owner-outside-apex" => {
            if apex.as_ref()?.is_root() {
                return None;
            }
            lines.push("*.outside.invalid. 300 IN A 1.2.3.4".into());
            lines.join("\n") + "\n"
        }
        "relative-owner-without-origin" => {
            lines.insert(at, "relative 300 IN A 1.2.3.4".into());
            lines.join("\n") + "\n"
        }
        "at-without-origin" => {
            lines.insert(at, "@ 300 IN A 1.2.3.4".into());
            lines.join("\n") + "\n"
        }
        "relative-rdata-name-without-origin" => {
            lines.insert(at, "absolute.example. 300 IN CNAME relative-target".into());
            lines.join("\n") + "\n"
        }
        "first-record-without-ttl" => {
            let mut l = vec![if rng.bool() { "first.example. IN A 1.2.3.4".to_string() } else { "first.example. A 1.2.3.4".to_string() }];
            l.extend(lines);
            l.join("\n") + "\n"
        }
        "backslash-at-eof" => format!("{base}x.example. 300 IN TXT abc\\"),
        "escape-two-digits-then-letter" => format!("{base}x.example. 300 IN TXT abc\\25x\n"),
        "escape-999" => format!("{base}x.example. 300 IN TXT \"abc\\999\"\n"),
        "unbalanced-close-paren" => {
            lines.insert(at, "x.example. 300 IN A 1.2.3.4 )".into());
            lines.join("\n") + "\n"
        }
        "nested-open-paren" => {
            lines.insert(at, "x.example. 300 IN ( A ( 1.2.3.4 ) )".into());
            lines.join("\n") + "\n"
        }
        "missing-rdata" => {
            lines.insert(at, (*rng.pick(&["x.example. 300 IN A", "x.example. 300 IN MX 10", "x.example. 300 IN", "x.example. 300 IN SRV 1 2 3"])).to_string());
            lines.join("\n") + "\n"
        }
        _ => return None,
    };
    Some(text)
}

fn c11_fault_case(rng: &mut Rng, fault: &str, sh: &mut Shard) {
    let mut notes = Vec::new();
    let Some(text) = make_fault(rng, fault, &mut notes) else {
        for n in notes {
            sh.count(&format!("fault-base:{n}"), 1);
        }
        return;
    };
    sh.eval();
    sh.count(&format!("fault:{fault}"), 1);
    sh.nontrivial(fnv_mix(fnv(text.as_bytes()), 0xfa));
    match catch(|| Zone::deserialise(&text)) {
        Err(msg) => sh.violation("C11:parser-panic", format!("Zone::deserialise panicked: {msg}"), json!({"kind": "zone-text", "text": text})),
        Ok(Ok(zone)) => sh.violation(
            format!("C11:fault-accepted:{fault}"),
            format!("a file with the fault '{fault}' was loaded (apex {:?}, {} records)", zone.get_apex(), observed_count(&zone)),
            json!({"kind": "zone-text", "fault": fault, "text": text}),
        ),
        Ok(Err(_)) => {}
    }
}

/// The zone files shipped with the repository: fixed regression corpus.
fn c11_shipped(sh: &mut Shard) {
    let dir = "/repo/config/zones";
    let Ok(rd) = std::fs::read_dir(dir) else { return };
    for e in rd.flatten() {
        let path = e.path();
        let fname = path.file_name().unwrap().to_string_lossy().to_string();
        let Ok(text) = std::fs::read_to_string(&path) else { continue };
        sh.eval();
        sh.count("shipped-files", 1);
        match Zone::deserialise(&text) {
            Err(err) => sh.violation(format!("C11:shipped-file-rejected:{fname}"), format!("{err:?}"), json!({"kind": "file", "path": path.to_string_lossy()})),
            Ok(z) => {
                // hand-derived: <apex>.zone files are authoritative for that apex; root.hints is not authoritative
                let want_apex = if fname == "root.hints" {
                    None
                } else {
                    fname.strip_suffix(".zone").map(|s| format!("{s}."))
                };
                match want_apex {
                    None => {
                        if z.is_authoritative() || !z.get_apex().is_root() {
                            sh.violation("C11:shipped:root-hints-authoritative", "root.hints parsed as an authoritative zone", json!({"kind": "file", "path": path.to_string_lossy()}));
                        }
                        let ns = z.resolve(&DomainName::root_domain(), qt(RecordType::NS));
                        if !matches!(&ns, Some(ZoneResult::Answer { rrs }) if rrs.len() == 13) {
                            sh.violation("C11:shipped:root-hints-ns-count", format!("expected 13 root NS records, got {ns:?}"), json!({"kind": "file", "path": path.to_string_lossy()}));
                        }
                    }
                    Some(a) => {
                        if z.get_apex().to_dotted_string() != a || !z.is_authoritative() {
                            sh.violation(
                                format!("C11:shipped:apex:{fname}"),
                                format!("expected authoritative apex {a}, got {:?} (authoritative: {})", z.get_apex(), z.is_authoritative()),
                                json!({"kind": "file", "path": path.to_string_lossy()}),
                            );
                        }
                    }
                }
            }
        }
    }
}

fn c11(args: Args) {
    quiet_panics();
    let mut run = Run::new(
        args.clone(),
        "exploration",
        "valid files: an abstract record list (owner, wildcard?, TTL, one of 17 RDATA types, optional SOA at any position) \
         rendered by the harness's own master-file printer with independently chosen variants ($ORIGIN several times, \
         absolute / relative / @ names, owner, TTL and class omitted where inheritable, TTL-IN and IN-TTL order, \
         parentheses over several lines, comments at line ends and inside parentheses, blank lines, tabs, CRLF, quoted / \
         unquoted / \\X / \\DDD octets, labels over every ASCII octet but '.'); the parse must equal the list after the \
         documented normalisation. single-fault files: 20 fault kinds injected into valid plain files must be rejected. \
         non-trivial = file with at least one record; distinct = distinct texts.",
    );
    run.assume("T6: forms ambiguous in the grammar itself are not generated (all-digit owner without TTL, tokens spelled like a type/class mnemonic, bare class with neither owner nor TTL)");
    run.assume("parentheses are generated at token boundaries separated by whitespace; a record directly after an SOA line inherits a TTL only if the SOA line's TTL equals its minimum");
    let seed = args.seed;
    let n_valid = args.size(2_400_000, 60_000_000);
    let n_fault = args.size(6_000, 200_000);
    run.parallel(THREADS, 8 << 20, |ti, sh| {
        let mut rng = Rng::new(seed).fork(0x1100 + ti as u64);
        if ti == 0 {
            c11_shipped(sh);
        }
        for _ in 0..(n_valid / THREADS as u64) {
            c11_valid_case(&mut rng, sh);
        }
        for k in 0..(n_fault / THREADS as u64) {
            for f in FAULTS {
                c11_fault_case(&mut rng, f, sh);
            }
            if k == 0 && sh.samples.len() < 3 {
                let mut notes = Vec::new();
                if let Some(t) = make_fault(&mut rng, "class-CH:owner-ttl-class", &mut notes) {
                    sh.sample(json!({"class": "single-fault", "fault": "class-CH:owner-ttl-class", "text": t}));
                }
            }
        }
    });
    run.finish(1000);
}

// ---------------------------------------------------------------------------
// C13

fn sorted_lines(s: &str) -> Vec<&str> {
    let mut v: Vec<&str> = s.lines().filter(|l| !l.trim().is_empty()).collect();
    v.sort_unstable();
    v
}

/// Which octet classes occur in the zone's names/RDATA (for signatures and evidence).
fn hostile_features(z: &Zone) -> BTreeSet<&'static str> {
    let mut f = BTreeSet::new();
    let mut scan_name = |n: &DomainName, f: &mut BTreeSet<&'static str>| {
        let apex = z.get_apex();
        let rel_len = n.labels.len().saturating_sub(apex.labels.len());
        if z.is_authoritative() && !apex.is_root() && n.is_subdomain_of(apex) && rel_len == 1 && n.labels[0].octets()[..] == b"@"[..] {
            f.insert("relative-name-is-@");
        }
        for l in &n.labels {
            for &b in l.octets().iter() {
                match b {
                    b'"' => f.insert("quote"),
                    b'\\' => f.insert("backslash"),
                    b';' => f.insert("semicolon"),
                    b'(' | b')' => f.insert("paren"),
                    b' ' | b'\t' | b'\n' | b'\r' => f.insert("whitespace"),
                    b'@' => f.insert("at-sign"),
                    b'*' => f.insert("star"),
                    b'$' => f.insert("dollar"),
                    0..=31 | 127 => f.insert("control"),
                    _ => false,
                };
            }
        }
    };
    for (name, zrs) in z.all_records().iter().chain(z.all_wildcard_records().iter()) {
        scan_name(name, &mut f);
        for zr in zrs {
            let mut v = Vec::new();
            rdata_names(&zr.rtype_with_data, &mut v);
            for n in v {
                scan_name(n, &mut f);
            }
        }
    }
    f
}

fn c13_check_zone(z: &Zone, class: &str, origin_text: Option<&str>, sh: &mut Shard) {
    sh.eval();
    let text1 = match catch(|| z.serialise()) {
        Ok(t) => t,
        Err(msg) => {
            sh.violation("C13:serialise-panic", msg, json!({"kind": "zone-debug", "zone": format!("{z:?}")}));
            return;
        }
    };
    let replay = || json!({"kind": "zone-roundtrip", "class": class, "source_text": origin_text, "serialised": text1});
    let feats = hostile_features(z);
    for f in &feats {
        sh.count(&format!("octets:{f}"), 1);
    }
    let ctx = if feats.contains("relative-name-is-@") { ":relative-name-is-@" } else { "" };
    match catch(|| Zone::deserialise(&text1)) {
        Err(msg) => sh.violation("C13:parser-panic-on-own-output", msg, replay()),
        Ok(Err(e)) => sh.violation(
            format!("C13:own-output-rejected:{}{ctx}", err_variant(&e)),
            format!("Zone::deserialise rejects Zone::serialise's output: {e:?}"),
            replay(),
        ),
        Ok(Ok(z2)) => {
            let a = observed(z);
            let b = observed(&z2);
            if let Some(d) = diff_expected(&a, &b) {
                sh.violation(
                    format!("C13:roundtrip-differs:{}{ctx}", diff_category(&d)),
                    format!("deserialise(serialise(z)) != z: {d}"),
                    replay(),
                );
                return;
            }
            if &z2 != z {
                sh.violation("C13:roundtrip-differs:partial-eq", "components equal but Zone::eq says the zones differ", replay());
                return;
            }
            // normalising twice changes nothing more (order inside a name is HashMap order: compare as line multisets)
            let text2 = z2.serialise();
            if sorted_lines(&text1) != sorted_lines(&text2) {
                sh.violation("C13:serialise-not-idempotent", "serialise(deserialise(serialise(z))) has different lines", replay());
            }
            if observed_count(z) > 0 {
                sh.nontrivial(fnv(text1.as_bytes()));
            }
        }
    }
}

fn c13_api_zone(rng: &mut Rng) -> Zone {
    // authoritative (any apex) or non-authoritative root: the shapes a configuration can produce (T7)
    let style = LabelStyle::Hostile;
    let (apex, soa) = if rng.chance(1, 4) {
        (DomainName::root_domain(), None)
    } else {
        let apex = if rng.chance(1, 5) {
            DomainName::root_domain()
        } else {
            let d = rng.range(1, 3);
            gen_name_below(rng, &DomainName::root_domain(), d, style, &[], true)
        };
        let s = gen_soa(rng, &apex, style);
        (
            apex,
            Some(SOA {
                mname: s.mname,
                rname: s.rname,
                serial: s.serial,
                refresh: s.refresh,
                retry: s.retry,
                expire: s.expire,
                minimum: s.minimum,
            }),
        )
    };
    let mut z = Zone::new(apex.clone(), soa);
    let n = rng.range(0, 10);
    let pool: Vec<Vec<u8>> = (0..3).map(|_| gen_text_label(rng, style)).collect();
    for i in 0..n {
        let d = rng.range(0, 3);
        let owner = gen_name_below(rng, &apex, d, style, &pool, true);
        let apex2 = apex.clone();
        let pool2 = pool.clone();
        let mut names = |rng: &mut Rng| -> DomainName {
            let d = rng.below(3);
            if rng.bool() {
                gen_name_below(rng, &apex2, d, style, &pool2, true)
            } else {
                gen_name_below(rng, &DomainName::root_domain(), d + 1, style, &pool2, true)
            }
        };
        let data = gen_rdata_text(rng, &mut names, true, i as u8);
        let ttl = *rng.pick(&[0u32, 5, 300, u32::MAX]);
        if rng.chance(1, 5) {
            z.insert_wildcard(&owner, data, ttl);
        } else {
            z.insert(&owner, data, ttl);
        }
    }
    z
}

fn run_bin(bin: &str, args: &[&str], input: &str) -> Result<(bool, String, String), String> {
    let mut child = Command::new(format!("{BIN_DIR}/{bin}"))
        .args(args)
        .stdin(Stdio::piped())
        .stdout(Stdio::piped())
        .stderr(Stdio::piped())
        .spawn()
        .map_err(|e| format!("cannot run {bin}: {e}"))?;
    child.stdin.take().unwrap().write_all(input.as_bytes()).map_err(|e| e.to_string())?;
    let out = child.wait_with_output().map_err(|e| e.to_string())?;
    Ok((
        out.status.success(),
        String::from_utf8_lossy(&out.stdout).to_string(),
        String::from_utf8_lossy(&out.stderr).to_string(),
    ))
}

fn c13(args: Args) {
    quiet_panics();
    let mut run = Run::new(
        args.clone(),
        "exploration",
        "zones obtained (a) by parsing generated master-file text whose labels range over every ASCII octet obtainable in \
         text (quotes, backslash, ';', parentheses, whitespace and control characters as \\DDD, '@' as a whole label and \
         inside labels, '*', '$', DEL), in owners and in RDATA names, relative and absolute, at and below the apex, RDATA \
         octets over all 256 values, authoritative (root and non-root apex) and not; (b) built through insert / \
         insert_wildcard from such names; each zone: deserialise(serialise(z)) == z component-wise and by PartialEq, and \
         a second normalisation yields the same lines. A sample also goes through the real ztoz binary twice. \
         non-trivial = zone with at least one record; distinct = distinct serialisations.",
    );
    run.assume("T7: API-built zones are authoritative or root-apex and hold only types the master-file syntax can express");
    run.assume("order of records inside one name follows HashMap iteration order, so 'changes nothing more' is judged on the multiset of lines");
    let seed = args.seed;
    let n_text = args.size(1_200_000, 40_000_000);
    let n_api = args.size(800_000, 25_000_000);
    let n_bin = args.size(96, 10_000);
    run.parallel(THREADS, 8 << 20, |ti, sh| {
        let mut rng = Rng::new(seed).fork(0x1300 + ti as u64);
        // a deterministic witness family for the '@' label: as owner and as CNAME target
        if ti == 0 {
            for txt in [
                "$ORIGIN example.com.\n@ IN SOA ns admin 1 2 3 4 60\n\\@ 300 IN A 1.2.3.4\n",
                "$ORIGIN example.com.\n@ IN SOA ns admin 1 2 3 4 60\nwww 300 IN CNAME \\@.example.com.\n",
                "$ORIGIN example.com.\n@ IN SOA ns admin 1 2 3 4 60\n\\@.example.com. 300 IN MX 10 \\@\n",
            ] {
                if let Ok(z) = Zone::deserialise(txt) {
                    c13_check_zone(&z, "fixed-at-label", Some(txt), sh);
                }
            }
        }
        for k in 0..(n_text / THREADS as u64) {
            let cfg = ZoneGenCfg {
                style: if rng.chance(1, 4) { LabelStyle::Plain } else { LabelStyle::Hostile },
                hostile_octets: true,
                max_records: 10,
            };
            let f = gen_afile(&mut rng, &cfg, None);
            let (text, _) = render_afile(&mut rng, &f, false);
            let Ok(z) = Zone::deserialise(&text) else {
                sh.count("source-text-rejected(see C11)", 1);
                continue;
            };
            c13_check_zone(&z, "parsed", Some(&text), sh);
            sh.count("class:parsed", 1);
            if sh.want_sample() && k == 9 {
                if let Ok(t) = catch(|| z.serialise()) {
                    sh.sample(json!({"class": "parsed", "serialised": t}));
                }
            }
        }
        for _ in 0..(n_api / THREADS as u64) {
            let z = c13_api_zone(&mut rng);
            c13_check_zone(&z, "api-built", None, sh);
            sh.count("class:api-built", 1);
        }
        // the real binary: ztoz(ztoz(x)) == ztoz(x) (as line multisets) and means the same as x
        for _ in 0..(n_bin / THREADS as u64).max(1) {
            let cfg = ZoneGenCfg {
                style: LabelStyle::Hostile,
                hostile_octets: true,
                max_records: 8,
            };
            let f = gen_afile(&mut rng, &cfg, None);
            let (text, _) = render_afile(&mut rng, &f, false);
            let Ok(z) = Zone::deserialise(&text) else { continue };
            sh.eval();
            sh.count("class:ztoz-binary", 1);
            let replay = json!({"kind": "ztoz", "text": text});
            match run_bin("ztoz", &[], &text) {
                Err(e) => {
                    sh.count("ztoz-could-not-run", 1);
                    let _ = e;
                }
                Ok((ok1, out1, err1)) => {
                    if !ok1 {
                        sh.violation("C13:ztoz-rejects-valid-file", truncate(&err1, 300), replay.clone());
                        continue;
                    }
                    match Zone::deserialise(&out1) {
                        Ok(z1) if observed(&z1) == observed(&z) => {}
                        Ok(_) => {
                            let ctx = if hostile_features(&z).contains("relative-name-is-@") { ":relative-name-is-@" } else { "" };
                            sh.violation(format!("C13:ztoz-changes-meaning{ctx}"), "ztoz output parses to a different zone", replay.clone());
                            continue;
                        }
                        Err(e) => {
                            let ctx = if hostile_features(&z).contains("relative-name-is-@") { ":relative-name-is-@" } else { "" };
                            sh.violation(format!("C13:ztoz-output-unparseable:{}{ctx}", err_variant(&e)), format!("{e:?}"), replay.clone());
                            continue;
                        }
                    }
                    if let Ok((ok2, out2, _)) = run_bin("ztoz", &[], &out1) {
                        if !ok2 || sorted_lines(&out1) != sorted_lines(&out2) {
                            sh.violation("C13:ztoz-not-idempotent", "ztoz fed its own output printed something else", replay.clone());
                        }
                    }
                }
            }
        }
    });
    run.finish(1000);
}

// ---------------------------------------------------------------------------
// C14

fn hosts_of_model(m: &HostsModel) -> (BTreeMap<DomainName, std::net::Ipv4Addr>, BTreeMap<DomainName, std::net::Ipv6Addr>) {
    (m.v4.clone(), m.v6.clone())
}

fn hosts_maps(h: &Hosts) -> (BTreeMap<DomainName, std::net::Ipv4Addr>, BTreeMap<DomainName, std::net::Ipv6Addr>) {
    (
        h.v4.iter().map(|(k, v)| (k.clone(), *v)).collect(),
        h.v6.iter().map(|(k, v)| (k.clone(), *v)).collect(),
    )
}

fn c14_case(rng: &mut Rng, sh: &mut Shard) {
    let tag = (rng.next_u32() % 200) as u8;
    let (text, model, features) = gen_hosts(rng, tag, 30);
    sh.eval();
    for f in &features {
        sh.count(&format!("syntax:{f}"), 1);
    }
    let replay = || json!({"kind": "hosts-text", "text": text});
    let hosts = match catch(|| Hosts::deserialise(&text)) {
        Err(msg) => {
            sh.violation("C14:parser-panic", msg, replay());
            return;
        }
        Ok(Err(e)) => {
            sh.violation(format!("C14:valid-file-rejected:{}", err_variant(&e)), format!("{e:?}"), replay());
            return;
        }
        Ok(Ok(h)) => h,
    };
    let want = hosts_of_model(&model);
    let got = hosts_maps(&hosts);
    if want != got {
        // name the syntax element at fault where it can be told
        let missing: Vec<String> = want.0.keys().filter(|k| !got.0.contains_key(*k)).chain(want.1.keys().filter(|k| !got.1.contains_key(*k))).map(show_name).collect();
        let extra: Vec<String> = got.0.keys().filter(|k| !want.0.contains_key(*k)).chain(got.1.keys().filter(|k| !want.1.contains_key(*k))).map(show_name).collect();
        let sig = if !missing.is_empty() && features.contains("comment:directly-after-name") && extra.is_empty() {
            "C14:mapping-lost:name-directly-followed-by-comment".to_string()
        } else if !missing.is_empty() {
            "C14:mapping-lost".to_string()
        } else if !extra.is_empty() {
            "C14:mapping-invented".to_string()
        } else {
            "C14:wrong-address(last-writer-wins?)".to_string()
        };
        sh.violation(sig, format!("parsed mappings differ from what the text denotes; missing {missing:?}, unexpected {extra:?}"), replay());
        return;
    }
    if !model.v4.is_empty() || !model.v6.is_empty() {
        sh.nontrivial(fnv(text.as_bytes()));
    }
    // text round trip
    let out = hosts.serialise();
    match Hosts::deserialise(&out) {
        Ok(h2) if h2 == hosts => {}
        Ok(_) => sh.violation("C14:text-roundtrip-differs", "deserialise(serialise(hosts)) != hosts", json!({"kind": "hosts-text", "text": text, "serialised": out})),
        Err(e) => sh.violation(format!("C14:own-output-rejected:{}", err_variant(&e)), format!("{e:?}"), json!({"kind": "hosts-text", "text": text, "serialised": out})),
    }
    // zone conversion
    let zone = Zone::from(hosts.clone());
    if zone.is_authoritative() || !zone.get_apex().is_root() {
        sh.violation("C14:derived-zone-not-nonauthoritative-root", format!("apex {:?}, authoritative {}", zone.get_apex(), zone.is_authoritative()), replay());
    }
    let n_records = observed_count(&zone);
    if n_records != model.v4.len() + model.v6.len() || !zone.all_wildcard_records().is_empty() {
        sh.violation("C14:derived-zone-record-count", format!("{} records for {} mappings", n_records, model.v4.len() + model.v6.len()), replay());
    }
    for (name, addr) in &model.v4 {
        let want = vec![rr(name, a(*addr), 5)];
        match zone.resolve(name, qt(RecordType::A)) {
            Some(ZoneResult::Answer { rrs }) if rrs == want => {}
            other => {
                sh.violation("C14:derived-zone-resolves-differently:A", format!("{} A -> {other:?}", show_name(name)), replay());
                break;
            }
        }
    }
    for (name, addr) in &model.v6 {
        let want = vec![rr(name, aaaa(*addr), 5)];
        match zone.resolve(name, qt(RecordType::AAAA)) {
            Some(ZoneResult::Answer { rrs }) if rrs == want => {}
            other => {
                sh.violation("C14:derived-zone-resolves-differently:AAAA", format!("{} AAAA -> {other:?}", show_name(name)), replay());
                break;
            }
        }
    }
    // both conversions back: the one that discards what a hosts file cannot hold must discard nothing here
    if Hosts::from_zone_lossy(&zone) != hosts {
        sh.violation("C14:zone-to-hosts-differs:lossy-conversion", "Hosts::from_zone_lossy(Zone::from(hosts)) != hosts", replay());
    }
    match Hosts::try_from(zone) {
        Ok(back) if back == hosts => {}
        Ok(_) => sh.violation("C14:zone-to-hosts-differs", "Hosts::try_from(Zone::from(hosts)) != hosts", replay()),
        Err(e) => sh.violation("C14:zone-to-hosts-fails", format!("{e:?}"), replay()),
    }
    if sh.want_sample() && text.len() > 150 && text.len() < 900 {
        sh.sample(json!({"class": "hosts-file", "text": text, "mappings_v4": model.v4.len(), "mappings_v6": model.v6.len()}));
    }
}

const HOSTS_FAULTS: [(&str, &str); 10] = [
    ("bad-octet", "256.1.1.1 name.example"),
    ("three-octets", "1.2.3 name.example"),
    ("bad-hex", "fd00::zz name.example"),
    ("too-many-groups", "1:2:3:4:5:6:7:8:9 name.example"),
    ("empty-label", "1.2.3.4 a..b"),
    ("leading-dot", "1.2.3.4 .example"),
    ("label-of-64", "1.2.3.4 aaaaaaaaaaaaaaaaaaaaaaaaaaaaaaaaaaaaaaaaaaaaaaaaaaaaaaaaaaaaaaaa.example"),
    ("non-ascii-name", "1.2.3.4 n\u{00e4}me.example"),
    ("non-ascii-address", "1.2.3.\u{0664} name.example"),
    ("garbage-address", "localhost 127.0.0.1"),
];

fn c14_fault_cases(rng: &mut Rng, sh: &mut Shard) {
    for (fault, line) in HOSTS_FAULTS {
        let (base, _, _) = gen_hosts(rng, 7, 6);
        let mut lines: Vec<&str> = base.lines().collect();
        let at = rng.below(lines.len() + 1);
        lines.insert(at, line);
        let text = lines.join("\n") + "\n";
        sh.eval();
        sh.count(&format!("fault:{fault}"), 1);
        sh.nontrivial(fnv_mix(fnv(text.as_bytes()), 0xfa));
        match catch(|| Hosts::deserialise(&text)) {
            Err(msg) => sh.violation("C14:parser-panic", msg, json!({"kind": "hosts-text", "text": text})),
            Ok(Ok(_)) => sh.violation(format!("C14:malformed-line-accepted:{fault}"), format!("line {line:?} was accepted"), json!({"kind": "hosts-text", "text": text})),
            Ok(Err(_)) => {}
        }
    }
    // a name of 256 octets
    let long = format!("1.2.3.4 {}", vec!["a".repeat(63); 4].join("."));
    sh.eval();
    if Hosts::deserialise(&long).is_ok() {
        sh.violation("C14:malformed-line-accepted:name-of-256", "a 256-octet name was accepted", json!({"kind": "hosts-text", "text": long}));
    }
}

fn c14(args: Args) {
    quiet_panics();
    let mut run = Run::new(
        args.clone(),
        "exploration",
        "hosts files of 0..30 lines: IPv4, IPv6 in canonical / upper-case / full / unpadded / v4-mapped forms, 1..5 names per \
         line (1..4 labels, trailing dot or not, mixed case), separators from {space, tab, runs of both}, leading and \
         trailing whitespace, comment lines, '#' directly after the address, after a name and after whitespace, blank and \
         address-only lines, %iface lines, duplicate and conflicting mappings, CRLF, missing final newline; the parse must \
         equal the mapping the text denotes (last writer wins per name and family); then serialise/deserialise, Zone::from, \
         Hosts::try_from and Zone::resolve on every mapping; 11 kinds of malformed mapping lines must be rejected; the \
         htoh / htoz / ztoh binaries on a sample. non-trivial = file with at least one mapping; distinct = distinct texts.",
    );
    let seed = args.seed;
    let n = args.size(1_600_000, 50_000_000);
    let n_fault = args.size(8_000, 200_000);
    let n_bin = args.size(96, 10_000);
    run.parallel(THREADS, 8 << 20, |ti, sh| {
        let mut rng = Rng::new(seed).fork(0x1400 + ti as u64);
        for _ in 0..(n / THREADS as u64) {
            c14_case(&mut rng, sh);
        }
        for _ in 0..(n_fault / THREADS as u64) {
            c14_fault_cases(&mut rng, sh);
        }
        for _ in 0..(n_bin / THREADS as u64).max(1) {
            let (text, model, _) = gen_hosts(&mut rng, 9, 12);
            sh.eval();
            sh.count("class:binaries", 1);
            let replay = json!({"kind": "hosts-binaries", "text": text});
            let Ok((ok, h1, e1)) = run_bin("htoh", &[], &text) else {
                sh.count("binaries-could-not-run", 1);
                continue;
            };
            if !ok {
                sh.violation("C14:htoh-rejects-valid-file", truncate(&e1, 300), replay.clone());
                continue;
            }
            match Hosts::deserialise(&h1) {
                Ok(h) if hosts_maps(&h) == hosts_of_model(&model) => {}
                _ => {
                    sh.violation("C14:htoh-changes-mappings", "htoh output does not denote the same mappings", replay.clone());
                    continue;
                }
            }
            if let Ok((ok2, h2, _)) = run_bin("htoh", &[], &h1) {
                if !ok2 || sorted_lines(&h1) != sorted_lines(&h2) {
                    sh.violation("C14:htoh-not-idempotent", "htoh(htoh(x)) != htoh(x)", replay.clone());
                }
            }
            if let Ok((okz, z, _)) = run_bin("htoz", &[], &text) {
                if !okz {
                    sh.violation("C14:htoz-rejects-valid-file", "htoz failed", replay.clone());
                } else if let Ok((okh, back, eb)) = run_bin("ztoh", &["--strict"], &z) {
                    if !okh {
                        sh.violation("C14:ztoh-rejects-htoz-output", truncate(&eb, 300), replay.clone());
                    } else if sorted_lines(&back) != sorted_lines(&h1) {
                        sh.violation("C14:ztoh-htoz-differs-from-htoh", "ztoh --strict (htoz x) != htoh x", replay.clone());
                    }
                }
                // without --strict the conversion may drop what a hosts file cannot hold: nothing, for a zone made from hosts data
                if let Ok((okl, back, _)) = run_bin("ztoh", &[], &z) {
                    if !okl || sorted_lines(&back) != sorted_lines(&h1) {
                        sh.violation("C14:ztoh-htoz-differs-from-htoh:lossy-conversion", "ztoh (htoz x) != htoh x", replay.clone());
                    }
                }
            }
        }
    });
    run.finish(1000);
}

// ---------------------------------------------------------------------------
// C12

fn flat_of(z: &Zone, soa: Option<FlatSoa>) -> FlatZone {
    let mut recs = Vec::new();
    for (name, zrs) in z.all_records() {
        for zr in zrs {
            if zr.rtype_with_data.rtype() == RecordType::SOA {
                continue;
            }
            recs.push(FlatRec {
                owner: name.clone(),
                wildcard: false,
                data: zr.rtype_with_data.clone(),
                ttl: zr.ttl,
            });
        }
    }
    for (name, zrs) in z.all_wildcard_records() {
        for zr in zrs {
            recs.push(FlatRec {
                owner: name.clone(),
                wildcard: true,
                data: zr.rtype_with_data.clone(),
                ttl: zr.ttl,
            });
        }
    }
    FlatZone {
        apex: z.get_apex().clone(),
        soa,
        recs,
        preclamped: true,
    }
}

fn flat_soa_of(s: &SOA) -> FlatSoa {
    FlatSoa {
        mname: s.mname.clone(),
        rname: s.rname.clone(),
        serial: s.serial,
        refresh: s.refresh,
        retry: s.retry,
        expire: s.expire,
        minimum: s.minimum,
    }
}

/// The files of one merge case, for one apex (or the non-authoritative root).
struct MergeCase {
    texts: Vec<String>,
}

fn gen_merge_case(rng: &mut Rng) -> MergeCase {
    // shared apex (or none => all files are root zones without SOA)
    let apex: Option<DomainName> = match rng.below(4) {
        0 => None,
        1 => Some(DomainName::root_domain()),
        _ => Some(dn(rng.pick(&["a.test.", "test.", "b.a.test."]))),
    };
    let base = apex.clone().unwrap_or_else(DomainName::root_domain);
    let n_files = rng.range(1, 5);
    let pool: Vec<Vec<u8>> = vec![b"a".to_vec(), b"b".to_vec(), b"c".to_vec(), b"www".to_vec()];
    let mut texts = Vec::new();
    for fi in 0..n_files {
        let with_soa = apex.is_some() && (fi == 0 || rng.chance(2, 3));
        // a file without SOA has the root as apex: only mix those in when the shared apex is the root
        if apex.is_some() && !with_soa && !base.is_root() {
            // make it authoritative anyway (it must share the apex)
        }
        let soa = if apex.is_some() && (with_soa || !base.is_root()) {
            let mut s = gen_soa(rng, &base, LabelStyle::Plain);
            s.serial = 100 + fi as u32;
            s.minimum = *rng.pick(&[0u32, 30, 300]);
            Some((base.clone(), s, None))
        } else {
            None
        };
        let mut recs = Vec::new();
        let n = rng.range(0, 8);
        for i in 0..n {
            let d = *rng.pick(&[0usize, 1, 1, 1, 2]);
            let owner = gen_name_below(rng, &base, d, LabelStyle::Plain, &pool, true);
            let wildcard = rng.chance(1, 4);
            let data = match rng.below(5) {
                // small value spaces so that files overlap and duplicate each other
                0 => a(std::net::Ipv4Addr::new(10, 0, 0, rng.below(3) as u8)),
                1 => a(std::net::Ipv4Addr::new(10, fi as u8, i as u8, 1)),
                2 => txt(&[b't', b'0' + rng.below(3) as u8]),
                3 => aaaa(std::net::Ipv6Addr::new(0xfd00, 0, 0, 0, 0, 0, 0, rng.below(3) as u16)),
                _ => mx(rng.below(2) as u16, &dn("mail.example.")),
            };
            recs.push(ARec {
                owner,
                wildcard,
                ttl: *rng.pick(&[60u32, 300]),
                data,
            });
        }
        let f = AFile { soa, recs };
        let (text, _) = render_afile(rng, &f, true);
        texts.push(text);
    }
    MergeCase { texts }
}

fn qnames_for(fz: &FlatZone, rng: &mut Rng) -> Vec<DomainName> {
    let mut out = vec![fz.apex.clone()];
    for r in &fz.recs {
        out.push(r.owner.clone());
        let mut ls = vec![label(b"zz")];
        ls.extend_from_slice(&r.owner.labels);
        if let Some(n) = DomainName::from_labels(ls) {
            out.push(n);
        }
    }
    for l in ["a", "b", "c", "www", "nope"] {
        let mut ls = vec![label(l.as_bytes())];
        ls.extend_from_slice(&fz.apex.labels);
        if let Some(n) = DomainName::from_labels(ls) {
            out.push(n);
        }
    }
    rng.shuffle(&mut out);
    out.truncate(24);
    out
}

fn c12_merge_case(rng: &mut Rng, sh: &mut Shard) {
    let case = gen_merge_case(rng);
    sh.eval();
    let replay = || json!({"kind": "zone-merge", "files": case.texts});
    let mut parsed = Vec::new();
    for t in &case.texts {
        match Zone::deserialise(t) {
            Ok(z) => parsed.push(z),
            Err(_) => {
                sh.count("part-rejected(see C11)", 1);
                return;
            }
        }
    }
    // expected: union of the parts' records, last SOA
    let mut want = Expected {
        apex: parsed[0].get_apex().clone(),
        soa: None,
        records: BTreeMap::new(),
    };
    let mut last_soa: Option<SOA> = None;
    let mut parts_with_wild_after_without = false;
    let mut seen_without_wild_at: BTreeSet<DomainName> = BTreeSet::new();
    for z in &parsed {
        let o = observed(z);
        for (k, v) in o.records {
            if k.1 && seen_without_wild_at.contains(&k.0) {
                parts_with_wild_after_without = true;
            }
            for r in v {
                if matches!(r.0, RecordTypeWithData::SOA { .. }) {
                    continue;
                }
                want.records.entry(k.clone()).or_default().insert(r);
            }
        }
        for (name, _) in z.all_records() {
            if !z.all_wildcard_records().contains_key(name) {
                seen_without_wild_at.insert(name.clone());
            }
        }
        seen_without_wild_at.insert(z.get_apex().clone());
        if let Some(s) = z.get_soa() {
            last_soa = Some(s.clone());
        }
    }
    if let Some(s) = &last_soa {
        want.soa = Some((s.mname.clone(), s.rname.clone(), [s.serial, s.refresh, s.retry, s.expire, s.minimum]));
        want.records
            .entry((want.apex.clone(), false))
            .or_default()
            .insert((s.to_rdata(), s.minimum));
    }
    let n_soa_files = parsed.iter().filter(|z| z.is_authoritative()).count();
    // merge through Zones::insert_merge, as the configuration loader does
    let mut zones = Zones::new();
    for z in parsed.iter().cloned() {
        if let Err(msg) = catch(std::panic::AssertUnwindSafe(|| zones.insert_merge(z))) {
            sh.violation("C12:merge-panic", msg, replay());
            return;
        }
    }
    let Some(merged) = zones.get(&want.apex).cloned() else {
        sh.violation("C12:merged-zone-missing", "no zone for the shared apex after merging", replay());
        return;
    };
    let got = observed(&merged);
    if let Some(d) = diff_expected(&want, &got) {
        let sig = if d.contains("SOA") || d.contains("SOA {") {
            if n_soa_files > 1 { "C12:soa-record-set-accumulates-across-files".to_string() } else { "C12:soa-wrong".to_string() }
        } else if (d.starts_with("records of *.") || d.starts_with("missing at *.")) && parts_with_wild_after_without {
            "C12:wildcard-set-dropped-when-receiving-node-has-none".to_string()
        } else {
            format!("C12:union-differs:{}", diff_category(&d))
        };
        sh.violation(sig, format!("merged zone is not the union of its parts: {d}"), replay());
        return;
    }
    if observed_count(&merged) != expected_count(&want) {
        sh.violation("C12:duplicates-after-merge", format!("{} records held, union has {}", observed_count(&merged), expected_count(&want)), replay());
        return;
    }
    // exactly one SOA in the SOA RRset
    if let Some(s) = &last_soa {
        match merged.resolve(&want.apex, qt(RecordType::SOA)) {
            Some(ZoneResult::Answer { rrs }) if rrs.len() == 1 && rrs[0].rtype_with_data == s.to_rdata() => {}
            other => {
                sh.violation("C12:soa-rrset-not-exactly-the-last-soa", format!("resolve(apex, SOA) = {other:?}"), replay());
                return;
            }
        }
    }
    // behavioural: every question answered like the reference model on the union
    let fz = flat_of(&merged, last_soa.as_ref().map(flat_soa_of));
    let mut want_fz = FlatZone {
        apex: want.apex.clone(),
        soa: last_soa.as_ref().map(flat_soa_of),
        recs: Vec::new(),
        preclamped: true,
    };
    for ((owner, wild), set) in &want.records {
        for (data, ttl) in set {
            if matches!(data, RecordTypeWithData::SOA { .. }) {
                continue;
            }
            want_fz.recs.push(FlatRec {
                owner: owner.clone(),
                wildcard: *wild,
                data: data.clone(),
                ttl: *ttl,
            });
        }
    }
    let _ = fz;
    let mut any = false;
    for q in qnames_for(&want_fz, rng) {
        for t in [qt(RecordType::A), qt(RecordType::TXT), qt(RecordType::AAAA), qt(RecordType::MX), qt(RecordType::SOA), QueryType::Wildcard] {
            sh.count("merged-zone-questions", 1);
            let Some(w) = want_fz.lookup(&q, t) else { continue };
            let g = merged.resolve(&q, t);
            let same = match (&g, &w) {
                (Some(ZoneResult::Answer { rrs }), RefResult::Answer(x)) => same_multiset(rrs, x),
                (Some(ZoneResult::CNAME { rr, .. }), RefResult::Cname(x)) => rr == x,
                (Some(ZoneResult::Delegation { ns_rrs }), RefResult::Referral(x)) => same_multiset(ns_rrs, x),
                (Some(ZoneResult::NameError), RefResult::NameError) => true,
                _ => false,
            };
            if w != RefResult::NameError {
                any = true;
            }
            if !same {
                sh.violation(
                    "C12:merged-zone-answers-differently",
                    format!("merged.resolve({}, {t}) = {g:?}; union says {w:?}", show_name(&q)),
                    replay(),
                );
                return;
            }
        }
    }
    if any && case.texts.len() > 1 {
        sh.nontrivial(fnv(case.texts.join("\u{1}").as_bytes()));
    }
    sh.count(&format!("files-merged:{}", case.texts.len()), 1);
    if sh.want_sample() && case.texts.len() >= 2 && case.texts.iter().map(String::len).sum::<usize>() < 1500 {
        sh.sample(json!({"class": "merge", "files": case.texts}));
    }
}

/// Real files through `resolved::fs::load_zone_configuration`.
fn c12_files_case(rng: &mut Rng, rt: &tokio::runtime::Runtime, scratch: &std::path::Path, sh: &mut Shard) {
    let _ = std::fs::remove_dir_all(scratch);
    let zdir = scratch.join("zones.d");
    let hdir = scratch.join("hosts.d");
    std::fs::create_dir_all(&zdir).unwrap();
    std::fs::create_dir_all(&hdir).unwrap();
    sh.eval();
    // zone files for one authoritative apex, each with its own SOA serial: the order they are applied in
    // is visible in which SOA survives; plus root files and hosts files
    let apex = dn("cfg.test.");
    let mut files: Vec<(std::path::PathBuf, String, u32)> = Vec::new(); // path, text, serial
    let mk = |serial: u32, extra: &str| format!("$ORIGIN cfg.test.\n@ 300 IN SOA ns admin {serial} 1 1 1 60\nfile{serial} 300 IN A 10.0.0.{}\nshared 300 IN TXT \"{serial}\"\n{extra}", serial % 250);
    // explicit -z files (argument order), then directory files (sorted by path); creation order != lexical order
    let n_explicit = rng.below(3);
    let mut serial = 1;
    let mut explicit = Vec::new();
    for i in 0..n_explicit {
        let p = scratch.join(format!("explicit-{}.zone", [b'z', b'a', b'm'][i] as char));
        let t = mk(serial, "");
        std::fs::write(&p, &t).unwrap();
        explicit.push(p.clone());
        files.push((p, t, serial));
        serial += 1;
    }
    let mut dir_names: Vec<String> = (0..rng.range(1, 4)).map(|_| format!("{}{}.zone", (b'a' + rng.below(26) as u8) as char, rng.below(100))).collect();
    dir_names.dedup();
    let mut dir_files = Vec::new();
    for nme in &dir_names {
        let p = zdir.join(nme);
        if p.exists() {
            continue;
        }
        let t = mk(serial, if rng.bool() { "* 300 IN A 10.9.9.9\n" } else { "" });
        std::fs::write(&p, &t).unwrap();
        dir_files.push((p, t, serial));
        serial += 1;
    }
    dir_files.sort_by(|a, b| a.0.cmp(&b.0));
    let last_serial = dir_files.last().map(|f| f.2).or(files.last().map(|f| f.2));
    files.extend(dir_files);
    // hosts: explicit -a file(s) then -A directory
    let mut hosts_model = HostsModel::default();
    let mut hosts_explicit = Vec::new();
    let mut hosts_all: Vec<(std::path::PathBuf, HostsModel)> = Vec::new();
    for i in 0..rng.below(3) {
        let (t, m, _) = gen_hosts(rng, 20 + i as u8, 6);
        let p = scratch.join(format!("hosts-{}", [b'q', b'b'][i % 2] as char));
        std::fs::write(&p, t.replace("conflict", "conflict")).unwrap();
        hosts_explicit.push(p.clone());
        hosts_all.push((p, m));
    }
    let mut hd = Vec::new();
    for i in 0..rng.below(3) {
        let (mut t, mut m, _) = gen_hosts(rng, 40 + i as u8, 6);
        // a conflicting mapping for one fixed name in every file: last file in sorted order must win
        t.push_str(&format!("\n10.77.0.{} conflict.cfg.example\n", i + 1));
        m.v4.insert(dn("conflict.cfg.example."), std::net::Ipv4Addr::new(10, 77, 0, i as u8 + 1));
        let p = hdir.join(format!("{}-hosts", [b'y', b'c', b'k'][i] as char));
        std::fs::write(&p, t).unwrap();
        hd.push((p, m));
    }
    hd.sort_by(|a, b| a.0.cmp(&b.0));
    hosts_all.extend(hd);
    for (_, m) in &hosts_all {
        hosts_model.merge(m);
    }
    let zones = rt.block_on(resolved::fs::load_zone_configuration(&hosts_explicit, &[hdir.clone()], &explicit, &[zdir.clone()]));
    let replay = || {
        json!({"kind": "config-dir", "zone_files_in_application_order": files.iter().map(|f| (f.0.to_string_lossy().to_string(), f.1.clone())).collect::<Vec<_>>(),
               "hosts_files_in_application_order": hosts_all.iter().map(|f| f.0.to_string_lossy().to_string()).collect::<Vec<_>>()})
    };
    let Some(zones) = zones else {
        sh.violation("C12:valid-configuration-rejected", "load_zone_configuration returned None for valid files", replay());
        return;
    };
    if let Some(ls) = last_serial {
        match zones.get(&apex) {
            Some(z) => {
                let got = z.get_soa().map(|s| s.serial);
                if got != Some(ls) {
                    sh.violation(
                        "C12:files-not-applied-in-argument-then-sorted-order",
                        format!("surviving SOA serial {got:?}, expected {ls} (last file in application order)"),
                        replay(),
                    );
                }
                for (_, _, s) in &files {
                    let name = dn(&format!("file{s}.cfg.test."));
                    if !matches!(z.resolve(&name, qt(RecordType::A)), Some(ZoneResult::Answer { rrs }) if rrs.len() == 1) {
                        sh.violation("C12:record-of-a-file-missing-after-load", format!("{} A not answered", show_name(&name)), replay());
                    }
                }
                match z.resolve(&dn("shared.cfg.test."), qt(RecordType::TXT)) {
                    Some(ZoneResult::Answer { rrs }) if rrs.len() == files.len() => {}
                    other => sh.violation("C12:union-across-files-wrong", format!("shared.cfg.test. TXT -> {other:?}, expected {} records", files.len()), replay()),
                }
            }
            None => sh.violation("C12:zone-missing-after-load", "cfg.test. not loaded", replay()),
        }
    }
    // hosts end up in the non-authoritative root zone, last writer wins
    if !hosts_model.v4.is_empty() || !hosts_model.v6.is_empty() {
        match zones.get(&dn("anything.example.")) {
            Some(root) if root.get_apex().is_root() && !root.is_authoritative() => {
                for (name, addr) in &hosts_model.v4 {
                    match root.resolve(name, qt(RecordType::A)) {
                        Some(ZoneResult::Answer { rrs }) if rrs.len() == 1 && rrs[0].rtype_with_data == a(*addr) => {}
                        other => {
                            sh.violation("C12:hosts-not-last-writer-wins", format!("{} A -> {other:?}, expected {addr}", show_name(name)), replay());
                            break;
                        }
                    }
                }
                for (name, addr) in &hosts_model.v6 {
                    match root.resolve(name, qt(RecordType::AAAA)) {
                        Some(ZoneResult::Answer { rrs }) if rrs.len() == 1 && rrs[0].rtype_with_data == aaaa(*addr) => {}
                        other => {
                            sh.violation("C12:hosts-not-last-writer-wins", format!("{} AAAA -> {other:?}, expected {addr}", show_name(name)), replay());
                            break;
                        }
                    }
                }
            }
            _ => sh.violation("C12:hosts-not-in-nonauthoritative-root-zone", "no non-authoritative root zone after loading hosts files", replay()),
        }
    }
    sh.count("directory-loads", 1);
    sh.nontrivial(fnv_mix(fnv(format!("{:?}", files.iter().map(|f| &f.0).collect::<Vec<_>>()).as_bytes()), hosts_all.len() as u64));
}

fn c12(args: Args) {
    quiet_panics();
    let run = Run::new(
        args.clone(),
        "exploration",
        "merge cases: 1..5 zone files for one apex (a.test., test., b.a.test., the root with SOA, or SOA-less root files), \
         with and without SOA (different serials / minimums), overlapping and duplicate records from small value spaces, \
         wildcard sets on nodes where another file has none / some / the same; merged through Zones::insert_merge; checked \
         structurally (records and wildcard records = union of the parts, one SOA = the last) and behaviourally (every \
         question over owners, names below them and siblings x 6 qtypes answered as the C02 reference model answers on the \
         union). directory loads: real files through resolved::fs::load_zone_configuration with explicit files and \
         -Z/-A directories whose lexical order differs from creation order; SOA serial of the survivor, per-file records, \
         union RRset, hosts last-writer-wins in the non-authoritative root zone. non-trivial = merge of >= 2 files that \
         answers at least one question non-negatively / a directory load; distinct = distinct file sets.",
    );
    let seed = args.seed;
    let n = args.size(900_000, 30_000_000);
    let n_dirs = args.size(960, 20_000);
    let rt = tokio::runtime::Builder::new_current_thread().enable_all().build().unwrap();
    let rt = std::sync::Mutex::new(rt);
    let _ = rt;
    run.parallel(THREADS, 8 << 20, |ti, sh| {
        let mut rng = Rng::new(seed).fork(0x1200 + ti as u64);
        for _ in 0..(n / THREADS as u64) {
            c12_merge_case(&mut rng, sh);
        }
        let rt = tokio::runtime::Builder::new_current_thread().enable_all().build().unwrap();
        let scratch = std::path::PathBuf::from(format!("/verif/target/scratch/c12-{}-{ti}", std::process::id()));
        for _ in 0..(n_dirs / THREADS as u64) {
            c12_files_case(&mut rng, &rt, &scratch, sh);
        }
        let _ = std::fs::remove_dir_all(&scratch);
    });
    run.finish(1000);
}

// ---------------------------------------------------------------------------
// C17

const DICT: [&str; 46] = [
    "$ORIGIN", "$INCLUDE", "$TTL", "@", "*", "*.", "IN", "CH", "A", "AAAA", "NS", "CNAME", "SOA", "MX", "TXT", "SRV", "PTR", "HINFO", "MINFO", "WKS", "NULL", "TYPE65535", "TYPE0",
    "CLASS0", "(", ")", "\"", "\\", ";", "#", "%", "::", "1.2.3.4", "fd00::1", "example.com.", ".", "..", "\\000", "\\255", "\\256", "\\25", "\u{0663}", "\u{feff}", "\0", "\r", "é",
];

fn c17_strings(rng: &mut Rng, k: u64, valid_zone: &[String], valid_hosts: &[String]) -> String {
    match if k % 64 == 63 { 7 } else { k % 7 } {
        0 => {
            // random unicode
            let n = rng.range(0, 200);
            (0..n)
                .map(|_| match rng.below(6) {
                    0 => char::from_u32(rng.below(0x11_0000) as u32).unwrap_or('x'),
                    1 => *rng.pick(&['\n', ' ', '\t', '"', '\\', '(', ')', ';', '#', '.', '@', '*', '%', ':']),
                    2 => (b'0' + rng.below(10) as u8) as char,
                    _ => (rng.below(128) as u8) as char,
                })
                .collect()
        }
        1 | 2 => {
            // token soup
            let n = rng.range(1, 60);
            let mut s = String::new();
            for _ in 0..n {
                match rng.below(12) {
                    0 => s.push('\n'),
                    1 => {
                        let d = rng.range(1, 40);
                        for _ in 0..d {
                            s.push((b'0' + rng.below(10) as u8) as char);
                        }
                    }
                    2 => {
                        let d = rng.range(60, 300);
                        for _ in 0..d {
                            s.push('a');
                        }
                    }
                    _ => s.push_str(rng.pick(&DICT)),
                }
                if rng.chance(4, 5) {
                    s.push(if rng.chance(1, 8) { '\t' } else { ' ' });
                }
            }
            s
        }
        3 | 4 => {
            // mutation of a valid zone file
            let base = rng.pick(valid_zone).clone();
            mutate(rng, &base)
        }
        5 => {
            let base = rng.pick(valid_hosts).clone();
            mutate(rng, &base)
        }
        6 => {
            // cut a valid file at a random byte offset (on a char boundary)
            let base = if rng.bool() { rng.pick(valid_zone) } else { rng.pick(valid_hosts) };
            let mut cut = rng.below(base.len() + 1);
            while !base.is_char_boundary(cut) {
                cut -= 1;
            }
            base[..cut].to_string()
        }
        _ => {
            // structured extremes
            match rng.below(12) {
                8..=11 => {
                    // one unit repeated 1 .. 260,000 times (log-uniform), alone or between a valid head and tail:
                    // whatever the parser does per line / per token, it must not do it on the stack
                    const UNITS: [&str; 22] = [
                        "\n", " \n", "\t\n", "\r\n", "; c\n", ";\n", "#c\n", "$ORIGIN a.\n", "$INCLUDE x\n", "(\n", ")\n", "( ", ") ", "a 1 IN A 1.2.3.4\n", " 1 IN A 1.2.3.4\n",
                        "@ ", "\"\" ", "\\\n", "1.2.3.4 h\n", "* ", "a\n", "x 1 IN TXT (\n",
                    ];
                    let unit = *rng.pick(&UNITS);
                    let bits = rng.range(0, 17);
                    let n = (1usize << bits) + rng.below(1usize << bits);
                    let mut s = String::with_capacity(unit.len() * n + 128);
                    if rng.bool() {
                        s.push_str("$ORIGIN example.\n@ 300 IN SOA ns admin 1 2 3 4 5\n");
                    }
                    for _ in 0..n {
                        s.push_str(unit);
                    }
                    if rng.bool() {
                        s.push_str("www 300 IN A 10.0.0.1\n");
                    }
                    s
                }
                0 => "(".repeat(rng.range(1, 100_000)),
                1 => format!("x. 300 IN TXT \"{}", "a".repeat(rng.range(1, 1 << 20))),
                2 => format!("{} 300 IN A 1.2.3.4", "a.".repeat(rng.range(1, 5000))),
                3 => "\\".repeat(rng.range(1, 1000)),
                4 => format!("x. {} IN A 1.2.3.4", "9".repeat(rng.range(1, 400))),
                5 => format!("x. 300 IN A 1.2.3.4 {}", ")".repeat(rng.range(1, 1000))),
                6 => format!("1.2.3.4 {}", "n ".repeat(rng.range(1, 20_000))),
                _ => format!("$ORIGIN {}\n@ IN SOA @ @ 1 2 3 4 5\n", "x".repeat(rng.range(1, 400))),
            }
        }
    }
}

fn mutate(rng: &mut Rng, base: &str) -> String {
    let mut toks: Vec<String> = base.split_inclusive(|c: char| c.is_whitespace()).map(str::to_string).collect();
    if toks.is_empty() {
        return String::new();
    }
    for _ in 0..rng.range(1, 4) {
        let i = rng.below(toks.len());
        match rng.below(7) {
            0 => {
                toks.remove(i);
            }
            1 => {
                let t = toks[i].clone();
                toks.insert(i, t);
            }
            2 => {
                let j = rng.below(toks.len());
                toks.swap(i, j);
            }
            3 => toks[i] = format!("{} ", rng.pick(&DICT)),
            4 => toks[i] = format!("\"{}", toks[i]),
            5 => toks[i] = format!("( {}", toks[i]),
            _ => toks[i] = format!("{}\\", toks[i].trim_end()),
        }
        if toks.is_empty() {
            break;
        }
    }
    toks.concat()
}

fn c17(args: Args) {
    quiet_panics();
    let run = Run::new(
        args.clone(),
        "exploration",
        "strings: random Unicode; token soup from a dictionary of directives, mnemonics, delimiters, escapes, 1..40-digit \
         numbers, 60..300-character labels, NUL, BOM, CR, non-ASCII letters and digits; grammar-aware mutations (delete / \
         duplicate / swap / replace a token, open a quote or parenthesis, dangling backslash) and cuts at random byte offsets \
         of valid generated zone and hosts files; structured extremes (10^5 open parentheses, 1 MiB token, thousands of \
         labels, huge numbers; one line- or token-level unit - blank, comment, directive, parenthesis, record, escape - repeated \
         up to 260,000 times); each through Zone::deserialise and Hosts::deserialise on 2 MiB threads in a watched \
         subprocess; a sample written to disk and loaded through load_zone_configuration. non-trivial = string of >= 1 \
         non-whitespace token; distinct = distinct strings.",
    );
    let hub = TraceHub::new(&args, THREADS);
    hub.start_hang_monitor(Duration::from_secs(60));
    let seed = args.seed;
    let n = args.size(1_200_000, 60_000_000);
    let n_files = args.size(320, 20_000);
    run.parallel(THREADS, 2 << 20, |ti, sh| {
        let mut tr = hub.tracer(ti);
        let mut rng = Rng::new(seed).fork(0x1700 + ti as u64);
        let cfg = ZoneGenCfg {
            style: LabelStyle::Hostile,
            hostile_octets: true,
            max_records: 8,
        };
        let valid_zone: Vec<String> = (0..40)
            .map(|_| {
                let f = gen_afile(&mut rng, &cfg, None);
                render_afile(&mut rng, &f, false).0
            })
            .collect();
        let valid_hosts: Vec<String> = (0..40).map(|_| gen_hosts(&mut rng, 3, 12).0).collect();
        for k in 0..(n / THREADS as u64) {
            let s = c17_strings(&mut rng, k, &valid_zone, &valid_hosts);
            sh.eval();
            if s.split_whitespace().next().is_some() {
                sh.nontrivial(fnv(s.as_bytes()));
            }
            tr.begin(|| json!({"text": s}));
            let rz = catch(|| Zone::deserialise(&s).is_ok());
            let rh = catch(|| Hosts::deserialise(&s).is_ok());
            tr.end();
            match rz {
                Ok(true) => sh.count("zone-parser:accepted", 1),
                Ok(false) => sh.count("zone-parser:rejected", 1),
                Err(msg) => sh.violation(
                    format!("C17:zone-parser-panic:{}", msg.split_whitespace().take(5).collect::<Vec<_>>().join("_")),
                    format!("Zone::deserialise panicked: {msg}"),
                    json!({"kind": "text", "parser": "zone", "text": s}),
                ),
            }
            match rh {
                Ok(true) => sh.count("hosts-parser:accepted", 1),
                Ok(false) => sh.count("hosts-parser:rejected", 1),
                Err(msg) => sh.violation(
                    format!("C17:hosts-parser-panic:{}", msg.split_whitespace().take(5).collect::<Vec<_>>().join("_")),
                    format!("Hosts::deserialise panicked: {msg}"),
                    json!({"kind": "text", "parser": "hosts", "text": s}),
                ),
            }
            if sh.want_sample() && k % 8 == 3 && s.len() < 400 {
                sh.sample(json!({"class": "mutated-zone-file", "text": s}));
            }
        }
        // files on disk through the configuration loader (bad files must give None, not a crash)
        let rt = tokio::runtime::Builder::new_current_thread().enable_all().build().unwrap();
        let scratch = std::path::PathBuf::from(format!("/verif/target/scratch/c17-{}-{ti}", std::process::id()));
        let _ = std::fs::create_dir_all(&scratch);
        for k in 0..(n_files / THREADS as u64) {
            let s = c17_strings(&mut rng, k * 3 + 1, &valid_zone, &valid_hosts);
            let zp = scratch.join("z.zone");
            let hp = scratch.join("hosts");
            // also: bytes that are not UTF-8
            if k % 5 == 0 {
                let _ = std::fs::write(&zp, [0xff, 0xfe, 0x00, 0xc3]);
            } else {
                let _ = std::fs::write(&zp, &s);
            }
            let _ = std::fs::write(&hp, &s);
            sh.eval();
            sh.count("files-through-loader", 1);
            tr.begin(|| json!({"loader_text": s}));
            let r = catch(std::panic::AssertUnwindSafe(|| rt.block_on(resolved::fs::load_zone_configuration(&[hp.clone()], &[], &[zp.clone()], &[])).is_some()));
            tr.end();
            if let Err(msg) = r {
                sh.violation("C17:loader-panic", msg, json!({"kind": "text", "parser": "loader", "text": s}));
            }
        }
        let _ = std::fs::remove_dir_all(&scratch);
    });
    run.finish(1000);
}

// ---------------------------------------------------------------------------

fn replay(args: &Args, path: &std::path::Path) {
    let text = std::fs::read_to_string(path).expect("read replay");
    let v: Value = serde_json::from_str(&text).expect("json");
    let case = &v["case"];
    match case["kind"].as_str() {
        Some("zone-text") | Some("text") | Some("ztoz") => {
            let t = case["text"].as_str().unwrap_or("");
            println!("Zone::deserialise -> {:?}", catch(|| Zone::deserialise(t).map(|z| format!("apex {:?}, {} records", z.get_apex(), observed_count(&z)))));
            if args.prop == "C17" || args.prop == "C14" {
                println!("Hosts::deserialise -> {:?}", catch(|| Hosts::deserialise(t).map(|h| h.v4.len() + h.v6.len())));
            }
        }
        Some("hosts-text") | Some("hosts-binaries") => {
            let t = case["text"].as_str().unwrap_or("");
            println!("Hosts::deserialise -> {:?}", catch(|| Hosts::deserialise(t)));
        }
        Some("zone-roundtrip") => {
            if let Some(t) = case["source_text"].as_str() {
                if let Ok(z) = Zone::deserialise(t) {
                    let mut sh = Shard::new();
                    c13_check_zone(&z, "replay", Some(t), &mut sh);
                    for v in &sh.violations {
                        println!("REPLAY VIOLATION {}: {}", v.signature, v.what);
                    }
                    if sh.violations.is_empty() {
                        println!("REPLAY: no violation");
                    }
                }
            } else {
                println!("serialised form was:\n{}", case["serialised"].as_str().unwrap_or(""));
            }
        }
        Some("zone-merge") => {
            let mut zones = Zones::new();
            for f in case["files"].as_array().cloned().unwrap_or_default() {
                match Zone::deserialise(f.as_str().unwrap_or("")) {
                    Ok(z) => zones.insert_merge(z),
                    Err(e) => println!("part rejected: {e:?}"),
                }
            }
            println!("merged: {zones:?}");
        }
        _ => println!("case: {case}"),
    }
}

//! Engine E6: the real `resolved` binary over loopback sockets.
//! C09 (every message answered exactly once and correctly framed; never goes down),
//! C19 (SIGUSR1 reload swaps the whole configuration or none of it).

use dns_resolver::cache::SharedCache;
use dns_resolver::util::types::{ProtocolMode, ResolvedRecord};
use dns_types::protocol::types::*;
use dns_types::zones::types::Zones;
use serde_json::{json, Value};
use std::collections::{BTreeMap, BTreeSet, HashMap};
use std::io::{BufRead, BufReader, Read, Write};
use std::net::{Ipv4Addr, Shutdown, SocketAddr, TcpStream, UdpSocket};
use std::path::{Path, PathBuf};
use std::process::{Child, Command, Stdio};
use std::sync::atomic::{AtomicBool, AtomicU64, Ordering};
use std::sync::{Arc, Mutex};
use std::time::{Duration, Instant};

use verif_harness::genmsg::*;
use verif_harness::names::*;
use verif_harness::refmodel::wire as refw;
use verif_harness::rng::{fnv, fnv_mix, Rng};
use verif_harness::run::{hex, quiet_panics, truncate, Args, Run, Shard};

const BIN: &str = "/verif/target/repo-bins/release/resolved";
const THREADS: usize = 8;

fn main() {
    let args = Args::parse();
    if let Some(p) = args.replay.clone() {
        println!("black-box witnesses carry the exact bytes sent and received; see {}", p.display());
        return;
    }
    quiet_panics();
    match args.prop.as_str() {
        "C09" => c09(args),
        "C19" => c19(args),
        other => {
            eprintln!("e_blackbox does not serve {other}");
            std::process::exit(2);
        }
    }
}

// ---------------------------------------------------------------------------
// the server process

struct Server {
    child: Child,
    addr: SocketAddr,
    /// (arrival time, line) of everything the server printed on stdout
    lines: Arc<Mutex<Vec<(Instant, String)>>>,
    stderr: Arc<Mutex<String>>,
}

fn free_port_pair(salt: u64) -> (u16, u16) {
    let base = 20000 + ((std::process::id() as u64 * 7 + salt * 101) % 20000) as u16;
    for off in 0..2000u16 {
        let p = base.wrapping_add(off * 2);
        if p < 1024 || p > 60000 {
            continue;
        }
        let a = UdpSocket::bind(("127.0.0.1", p));
        let b = std::net::TcpListener::bind(("127.0.0.1", p));
        let c = std::net::TcpListener::bind(("127.0.0.1", p + 1));
        if a.is_ok() && b.is_ok() && c.is_ok() {
            return (p, p + 1);
        }
    }
    panic!("no free port");
}

impl Server {
    fn spawn(extra: &[String], log_filter: &str, salt: u64) -> Result<Server, String> {
        if !Path::new(BIN).exists() {
            return Err(format!("{BIN} not built"));
        }
        let (port, mport) = free_port_pair(salt);
        let mut cmd = Command::new(BIN);
        cmd.arg("-i")
            .arg(format!("127.0.0.1:{port}"))
            .arg("--metrics-address")
            .arg(format!("127.0.0.1:{mport}"))
            .args(extra)
            .env("RUST_LOG", log_filter)
            .env("RUST_LOG_FORMAT", "no-ansi")
            .env("RUST_BACKTRACE", "0")
            .stdin(Stdio::null())
            .stdout(Stdio::piped())
            .stderr(Stdio::piped());
        let mut child = cmd.spawn().map_err(|e| format!("spawn: {e}"))?;
        let lines = Arc::new(Mutex::new(Vec::new()));
        let stderr = Arc::new(Mutex::new(String::new()));
        {
            let out = child.stdout.take().unwrap();
            let lines = lines.clone();
            std::thread::spawn(move || {
                for l in BufReader::new(out).lines().map_while(Result::ok) {
                    lines.lock().unwrap().push((Instant::now(), l));
                }
            });
            let err = child.stderr.take().unwrap();
            let stderr = stderr.clone();
            std::thread::spawn(move || {
                for l in BufReader::new(err).lines().map_while(Result::ok) {
                    let mut s = stderr.lock().unwrap();
                    if s.len() < 20000 {
                        s.push_str(&l);
                        s.push('\n');
                    }
                }
            });
        }
        let mut s = Server {
            child,
            addr: SocketAddr::from((Ipv4Addr::LOCALHOST, port)),
            lines,
            stderr,
        };
        // wait until it answers
        let probe = build_query(0x7777, 0x0000, &dn("ready.probe.invalid."), 1, 1);
        let sock = UdpSocket::bind("127.0.0.1:0").map_err(|e| e.to_string())?;
        sock.connect(s.addr).map_err(|e| e.to_string())?;
        sock.set_read_timeout(Some(Duration::from_millis(100))).ok();
        let t0 = Instant::now();
        loop {
            if !s.alive() {
                return Err(format!("server exited during start-up: {}", s.stderr.lock().unwrap()));
            }
            let _ = sock.send(&probe);
            let mut buf = [0u8; 600];
            if let Ok(n) = sock.recv(&mut buf) {
                if n >= 12 && buf[0] == 0x77 && buf[1] == 0x77 {
                    break;
                }
            }
            if t0.elapsed() > Duration::from_secs(20) {
                return Err("server did not become ready within 20 s".into());
            }
        }
        Ok(s)
    }

    fn alive(&mut self) -> bool {
        matches!(self.child.try_wait(), Ok(None))
    }

    fn exit_status(&mut self) -> Option<String> {
        match self.child.try_wait() {
            Ok(Some(st)) => Some(format!("{st}")),
            _ => None,
        }
    }

    fn sigusr1(&self) {
        unsafe {
            libc::kill(self.child.id() as i32, libc::SIGUSR1);
        }
    }

    fn panicked(&self) -> Option<String> {
        let s = self.stderr.lock().unwrap();
        s.find("panicked").map(|i| truncate(&s[i.saturating_sub(40)..], 400))
    }
}

impl Drop for Server {
    fn drop(&mut self) {
        let _ = self.child.kill();
        let _ = self.child.wait();
    }
}

// ---------------------------------------------------------------------------
// wire helpers (own, minimal)

fn put_name(out: &mut Vec<u8>, n: &DomainName) {
    for l in &n.labels {
        out.push(l.octets().len() as u8);
        out.extend_from_slice(l.octets());
    }
}

fn build_query(id: u16, flags: u16, name: &DomainName, qtype: u16, qclass: u16) -> Vec<u8> {
    let mut v = Vec::with_capacity(64);
    v.extend_from_slice(&id.to_be_bytes());
    v.extend_from_slice(&flags.to_be_bytes());
    v.extend_from_slice(&[0, 1, 0, 0, 0, 0, 0, 0]);
    put_name(&mut v, name);
    v.extend_from_slice(&qtype.to_be_bytes());
    v.extend_from_slice(&qclass.to_be_bytes());
    v
}

#[derive(Clone, Debug, PartialEq, Eq)]
enum Expect {
    NoReply,
    FormErr,
    NotImp,
    Refused,
    /// standard query with exactly one known question
    Resolve(Question),
    /// standard query without a question: one reply, rcode unspecified
    OneReply,
}

fn is_known_type(t: u16) -> bool {
    KNOWN_TYPES.contains(&t) || (252..=255).contains(&t)
}

/// What the statement of C09 demands for these bytes (decided from the bytes by the harness's own decoder).
fn expectation(bytes: &[u8]) -> (Expect, Option<refw::RMsg>) {
    if bytes.len() < 2 {
        return (Expect::NoReply, None);
    }
    match refw::decode(bytes) {
        Err(_) => (Expect::FormErr, None),
        Ok((m, _)) => {
            let e = if m.qr {
                Expect::NoReply
            } else if m.opcode != 0 {
                Expect::NotImp
            } else if m.questions.is_empty() {
                Expect::OneReply
            } else if m.questions.len() > 1 {
                Expect::Refused
            } else {
                let (n, t, c) = &m.questions[0];
                if !is_known_type(*t) || !(*c == 1 || *c == 255) {
                    Expect::Refused
                } else {
                    let labels: Vec<Vec<u8>> = n.0.clone();
                    match name_from(&labels) {
                        Some(name) => Expect::Resolve(Question {
                            name,
                            qtype: QueryType::from(*t),
                            qclass: QueryClass::from(*c),
                        }),
                        None => Expect::FormErr,
                    }
                }
            };
            (e, Some(m))
        }
    }
}

/// Header rules for one reply, from the bytes sent.  Returns a (signature, description) on violation.
fn check_header(sent: &[u8], sent_msg: Option<&refw::RMsg>, exp: &Expect, reply: &[u8], recursion_offered: bool) -> Option<(String, String)> {
    if reply.len() < 12 {
        return Some(("C09:reply-shorter-than-a-header".into(), format!("reply of {} bytes", reply.len())));
    }
    if reply[..2] != sent[..2] {
        return Some(("C09:reply-with-wrong-id".into(), format!("sent id {:02x}{:02x}, reply id {:02x}{:02x}", sent[0], sent[1], reply[0], reply[1])));
    }
    if reply[2] & 0x80 == 0 {
        return Some(("C09:reply-without-QR".into(), "QR not set in reply".into()));
    }
    let rcode = reply[3] & 0x0f;
    let opcode = (reply[2] >> 3) & 0x0f;
    let rd = reply[2] & 1;
    let ra = reply[3] & 0x80 != 0;
    match exp {
        Expect::FormErr => {
            if rcode != 1 {
                return Some(("C09:unparseable-input-not-FORMERR".into(), format!("rcode {rcode}")));
            }
        }
        Expect::NotImp | Expect::Refused | Expect::Resolve(_) | Expect::OneReply => {
            let m = sent_msg.unwrap();
            if opcode != m.opcode {
                return Some(("C09:opcode-not-echoed".into(), format!("sent {} got {opcode}", m.opcode)));
            }
            if (rd == 1) != m.rd {
                return Some(("C09:RD-not-echoed".into(), format!("sent {} got {rd}", m.rd)));
            }
            match exp {
                Expect::NotImp if rcode != 4 => return Some(("C09:non-standard-opcode-not-NOTIMP".into(), format!("opcode {} rcode {rcode}", m.opcode))),
                Expect::Refused if rcode != 5 => return Some(("C09:several-questions-or-unknown-type-not-REFUSED".into(), format!("rcode {rcode}"))),
                Expect::Resolve(_) if !(rcode == 0 || rcode == 2 || rcode == 3) => return Some(("C09:unexpected-rcode-for-standard-query".into(), format!("rcode {rcode}"))),
                _ => {}
            }
            if m.opcode == 0 && ra != recursion_offered {
                return Some(("C09:RA-does-not-say-whether-recursion-is-offered".into(), format!("RA={ra}, recursion offered: {recursion_offered}")));
            }
            // question echo (when the reply is not cut short)
            if reply[2] & 0x02 == 0 {
                match refw::decode(reply) {
                    Ok((r, _)) => {
                        if r.questions != m.questions {
                            return Some(("C09:question-not-echoed".into(), format!("{} question(s) sent, {} in reply", m.questions.len(), r.questions.len())));
                        }
                    }
                    Err(e) => return Some(("C09:reply-does-not-parse".into(), format!("{e:?}"))),
                }
            }
        }
        Expect::NoReply => {}
    }
    None
}

// ---------------------------------------------------------------------------
// UDP client with exactly-once accounting

struct UdpClient {
    sock: UdpSocket,
    next_id: u16,
    used: u32,
    server: SocketAddr,
    /// every id sent on this socket -> number of replies seen carrying it
    reply_count: HashMap<u16, u32>,
}

struct Observed {
    /// the reply to the transmission recorded in `sent` (at most one is kept; `duplicates` counts more for the same id)
    replies: Vec<Vec<u8>>,
    attempts: u32,
    /// bytes of the transmission that was answered (or of the last one, if none was)
    sent: Vec<u8>,
    /// ids of transmissions that were due a reply and never got one, although a retransmission of the very same
    /// bytes was answered (the server received and answered the one, so it dropped the other or its reply)
    unanswered_ids: Vec<u16>,
}

impl UdpClient {
    fn new(server: SocketAddr) -> UdpClient {
        let sock = UdpSocket::bind("127.0.0.1:0").expect("bind");
        sock.connect(server).expect("connect");
        sock.set_read_timeout(Some(Duration::from_millis(4))).ok();
        UdpClient {
            sock,
            next_id: 1,
            used: 0,
            server,
            reply_count: HashMap::new(),
        }
    }

    fn fresh_socket_if_needed(&mut self, need: usize) {
        if self.used as usize + need * 4 > 60000 {
            *self = UdpClient::new(self.server);
        }
    }

    /// Send every message (id overwritten by a strictly increasing one where the message has room for an id), collect
    /// replies per message, retransmit silent ones (when a reply is due) up to 3 times — every transmission is a
    /// message of its own with its own id, and exactly-once is judged per id.  Returns per message what was seen, plus
    /// datagrams that carry an id never sent on this socket, plus ids answered more than once.
    fn run_chunk(&mut self, msgs: &[Vec<u8>], due: &[bool]) -> (Vec<Observed>, Vec<Vec<u8>>) {
        self.fresh_socket_if_needed(msgs.len());
        let mut obs: Vec<Observed> = msgs
            .iter()
            .map(|m| Observed {
                replies: Vec::new(),
                attempts: 0,
                sent: m.clone(),
                unanswered_ids: Vec::new(),
            })
            .collect();
        // id -> (message index, bytes of that transmission)
        let mut id_to_tx: HashMap<u16, (usize, Vec<u8>)> = HashMap::new();
        let mut strays: Vec<Vec<u8>> = Vec::new();
        let mut pending: Vec<usize> = (0..msgs.len()).collect();
        for attempt in 0..3 {
            if pending.is_empty() {
                break;
            }
            for &i in &pending {
                let mut b = msgs[i].clone();
                if b.len() >= 2 {
                    let id = self.next_id;
                    self.next_id = self.next_id.wrapping_add(1);
                    self.used += 1;
                    b[0] = (id >> 8) as u8;
                    b[1] = id as u8;
                    id_to_tx.insert(id, (i, b.clone()));
                    self.reply_count.insert(id, 0);
                }
                obs[i].attempts += 1;
                let _ = self.sock.send(&b);
                if obs[i].replies.is_empty() {
                    obs[i].sent = b;
                }
            }
            // collect until quiet (generous on retransmissions: wall-clock only decides how long we wait, never the verdict)
            let mut quiet = 0;
            let mut buf = [0u8; 2048];
            let quiet_limit = [25, 100, 400][attempt];
            loop {
                match self.sock.recv(&mut buf) {
                    Ok(n) => {
                        quiet = 0;
                        let d = buf[..n].to_vec();
                        if n >= 2 {
                            let id = u16::from_be_bytes([d[0], d[1]]);
                            if let Some(c) = self.reply_count.get_mut(&id) {
                                *c += 1;
                                let again = *c > 1;
                                if let Some((i, tx)) = id_to_tx.get(&id) {
                                    if again {
                                        // the same id answered twice: keep both so that the caller reports it
                                        obs[*i].replies.push(d);
                                    } else if obs[*i].replies.is_empty() {
                                        obs[*i].sent = tx.clone();
                                        obs[*i].replies.push(d);
                                    }
                                    // else: the reply to another transmission of a message already answered — fine
                                } else if again {
                                    strays.push(d); // a second reply to an id of an earlier chunk
                                }
                                // else: a late first reply to a transmission of an earlier chunk (already judged) — ignore
                                continue;
                            }
                        }
                        strays.push(d);
                    }
                    Err(_) => {
                        quiet += 1;
                        let all_in = pending.iter().all(|&i| !due[i] || !obs[i].replies.is_empty());
                        if (all_in && quiet >= 3) || quiet >= quiet_limit {
                            break;
                        }
                    }
                }
            }
            pending.retain(|&i| due[i] && obs[i].replies.is_empty());
        }
        // transmissions that needed a retransmission: give the earlier ids a last chance (1.5 s) to be answered late,
        // then record the ones the server never answered
        let retried: Vec<usize> = (0..msgs.len()).filter(|&i| due[i] && obs[i].attempts > 1 && !obs[i].replies.is_empty()).collect();
        if !retried.is_empty() {
            let outstanding = |rc: &HashMap<u16, u32>| -> Vec<(u16, usize)> {
                id_to_tx
                    .iter()
                    .filter(|(id, (i, _))| retried.contains(i) && rc.get(*id).copied().unwrap_or(0) == 0)
                    .map(|(id, (i, _))| (*id, *i))
                    .collect()
            };
            let deadline = Instant::now() + Duration::from_millis(1500);
            let mut buf = [0u8; 2048];
            while !outstanding(&self.reply_count).is_empty() && Instant::now() < deadline {
                if let Ok(n) = self.sock.recv(&mut buf) {
                    if n >= 2 {
                        let id = u16::from_be_bytes([buf[0], buf[1]]);
                        if let Some(c) = self.reply_count.get_mut(&id) {
                            *c += 1;
                            continue;
                        }
                    }
                    strays.push(buf[..n].to_vec());
                }
            }
            for (id, i) in outstanding(&self.reply_count) {
                obs[i].unanswered_ids.push(id);
            }
        }
        (obs, strays)
    }
}

/// One TCP connection: write `wire` (already framed by the caller), optionally half-close, read everything.
/// The flag says whether the connection was reset (which can destroy data the server had already sent).
fn tcp_exchange2(server: SocketAddr, wire: &[u8], half_close: bool) -> Result<(Vec<u8>, bool), String> {
    let mut s = TcpStream::connect_timeout(&server, Duration::from_secs(2)).map_err(|e| format!("connect: {e}"))?;
    s.set_read_timeout(Some(Duration::from_secs(5))).ok();
    s.set_write_timeout(Some(Duration::from_secs(5))).ok();
    s.set_nodelay(true).ok();
    let mut reset = false;
    if s.write_all(wire).is_err() {
        // the server may already have answered and closed
        reset = true;
    }
    if half_close {
        let _ = s.shutdown(Shutdown::Write);
    }
    let mut out = Vec::new();
    let mut buf = [0u8; 65536];
    loop {
        match s.read(&mut buf) {
            Ok(0) => break,
            Ok(n) => out.extend_from_slice(&buf[..n]),
            Err(e) if e.kind() == std::io::ErrorKind::WouldBlock || e.kind() == std::io::ErrorKind::TimedOut => {
                return Err(format!("no end of stream within 5 s after {} bytes", out.len()));
            }
            Err(_) => {
                reset = true;
                break;
            }
        }
    }
    Ok((out, reset))
}

fn tcp_exchange(server: SocketAddr, wire: &[u8], half_close: bool) -> Result<Vec<u8>, String> {
    tcp_exchange2(server, wire, half_close).map(|x| x.0)
}

fn framed(body: &[u8]) -> Vec<u8> {
    let mut v = (body.len() as u16).to_be_bytes().to_vec();
    v.extend_from_slice(body);
    v
}

// ---------------------------------------------------------------------------
// C09 zones and in-process expectation

fn write_c09_config(dir: &Path) -> (Vec<String>, Vec<DomainName>) {
    let _ = std::fs::remove_dir_all(dir);
    std::fs::create_dir_all(dir.join("zones")).unwrap();
    let mut z = String::from("$ORIGIN bb.test.\n@ 300 IN SOA ns hostmaster 1 3600 600 86400 60\n@ 300 IN NS ns\nns 300 IN A 10.9.0.1\nwww 300 IN A 10.9.0.2\nwww 300 IN AAAA fd09::2\n");
    // an RRset that cannot fit 512 bytes
    for i in 0..40 {
        z.push_str(&format!("big 300 IN TXT \"record number {i} of a large RRset padded to make it long enough xxxxxxxxxxxxxxxx\"\n"));
    }
    // exactly around the limit
    for i in 0..9 {
        z.push_str(&format!("edge 300 IN TXT \"{}\"\n", format!("{i}").repeat(40)));
    }
    // replies stepping across the 512-byte limit one byte at a time (TXT of 350..=450 octets)
    for k in 0..=100usize {
        z.push_str(&format!("sz{k:03} 300 IN TXT \"{}\"\n", "s".repeat(350 + k)));
    }
    z.push_str("alias1 300 IN CNAME alias2\nalias2 300 IN CNAME alias3\nalias3 300 IN CNAME www\nloop1 300 IN CNAME loop2\nloop2 300 IN CNAME loop1\nout 300 IN CNAME www.elsewhere.example.\n");
    z.push_str("*.wild 300 IN TXT \"wildcard\"\nent.deep.er 300 IN A 10.9.0.3\nsub 300 IN NS ns.sub\nmail 300 IN MX 10 www\n");
    std::fs::write(dir.join("zones/bb.test.zone"), z).unwrap();
    std::fs::write(dir.join("zones/root.zone"), "override.example. 300 IN A 10.9.1.1\nblocked.example. 300 IN A 0.0.0.0\n").unwrap();
    std::fs::write(dir.join("hosts"), "10.9.2.1 printer.lan printer\nfd09::21 printer.lan\n").unwrap();
    let args = vec!["-Z".to_string(), dir.join("zones").to_string_lossy().to_string(), "-a".to_string(), dir.join("hosts").to_string_lossy().to_string()];
    let names = [
        "bb.test.", "www.bb.test.", "big.bb.test.", "edge.bb.test.", "alias1.bb.test.", "alias2.bb.test.", "loop1.bb.test.", "out.bb.test.", "x.wild.bb.test.", "a.b.wild.bb.test.",
        "deep.er.bb.test.", "er.bb.test.", "ent.deep.er.bb.test.", "sub.bb.test.", "x.sub.bb.test.", "mail.bb.test.", "nope.bb.test.", "a.nope.bb.test.", "override.example.",
        "blocked.example.", "printer.lan.", "printer.", "unknown.example.", "test.", ".",
    ]
    .iter()
    .map(|s| dn(s))
    .chain((0..=100usize).map(|k| dn(&format!("sz{k:03}.bb.test."))))
    .collect();
    (args, names)
}

struct InProcess {
    rt: tokio::runtime::Runtime,
    zones: Zones,
    recursive: bool,
    forward: Option<SocketAddr>,
    memo: HashMap<(DomainName, u16, bool), Option<ExpectedWire>>,
}

#[derive(Clone, Debug)]
struct ExpectedWire {
    rcode: u8,
    aa: bool,
    answers: Vec<ResourceRecord>,
    authority: Vec<ResourceRecord>,
}

impl InProcess {
    fn new(dir: &Path, recursive: bool, forward: Option<SocketAddr>) -> Option<InProcess> {
        let rt = tokio::runtime::Builder::new_current_thread().enable_all().build().ok()?;
        let zones = rt.block_on(resolved::fs::load_zone_configuration(&[dir.join("hosts")], &[], &[], &[dir.join("zones")]))?;
        Some(InProcess {
            rt,
            zones,
            recursive,
            forward,
            memo: HashMap::new(),
        })
    }

    /// What `resolve_and_build_response` documents for this question (sections, AA, RCODE).
    fn expected(&mut self, q: &Question, rd: bool) -> Option<ExpectedWire> {
        let key = (q.name.clone(), u16::from(q.qtype), rd);
        if let Some(e) = self.memo.get(&key) {
            return e.clone();
        }
        let cache = SharedCache::new();
        let (_m, res) = self
            .rt
            .block_on(dns_resolver::resolve(rd && self.recursive, ProtocolMode::OnlyV4, 53, self.forward, &self.zones, &cache, q));
        let mut e = ExpectedWire {
            rcode: 0,
            aa: false,
            answers: vec![],
            authority: vec![],
        };
        match res {
            Ok(ResolvedRecord::Authoritative { rrs, soa_rr }) => {
                e.answers = rrs;
                e.authority = vec![soa_rr];
                e.aa = true;
            }
            Ok(ResolvedRecord::AuthoritativeNameError { soa_rr }) => {
                e.authority = vec![soa_rr];
                e.rcode = 3;
                e.aa = true;
            }
            Ok(ResolvedRecord::NonAuthoritative { rrs, soa_rr }) => {
                e.answers = rrs;
                e.authority = soa_rr.into_iter().collect();
            }
            Err(_) => {}
        }
        if e.answers.is_empty() && e.authority.is_empty() && e.rcode == 0 {
            e.rcode = 2;
            e.aa = false;
        }
        let e = Some(e);
        self.memo.insert(key, e.clone());
        e
    }
}

/// Compare a complete (TCP) reply with the in-process expectation, and check the answer-section structure.
fn check_semantics(q: &Question, reply: &[u8], want: &ExpectedWire) -> Option<(String, String)> {
    let m = match Message::from_octets(reply) {
        Ok(m) => m,
        Err(e) => return Some(("C09:reply-does-not-parse".into(), format!("{e:?}"))),
    };
    let rcode = u8::from(m.header.rcode);
    if rcode != want.rcode {
        return Some((format!("C09:rcode-differs-from-resolver:{}-vs-{}", rcode, want.rcode), format!("reply rcode {rcode}, resolver says {}", want.rcode)));
    }
    if m.header.is_authoritative != want.aa {
        return Some(("C09:AA-differs-from-resolver".into(), format!("AA={}, resolver says {}", m.header.is_authoritative, want.aa)));
    }
    if !same_multiset(&m.answers, &want.answers) {
        return Some(("C09:answer-section-differs-from-resolver".into(), format!("reply {} records, resolver {}", m.answers.len(), want.answers.len())));
    }
    if !same_multiset(&m.authority, &want.authority) {
        return Some(("C09:authority-section-differs-from-resolver".into(), format!("reply {} records, resolver {}", m.authority.len(), want.authority.len())));
    }
    // an answer section holds only records for the question name or its CNAME chain
    let mut allowed: BTreeSet<DomainName> = BTreeSet::new();
    allowed.insert(q.name.clone());
    let mut changed = true;
    while changed {
        changed = false;
        for r in &m.answers {
            if let RecordTypeWithData::CNAME { cname } = &r.rtype_with_data {
                if allowed.contains(&r.name) && allowed.insert(cname.clone()) {
                    changed = true;
                }
            }
        }
    }
    for r in &m.answers {
        if !allowed.contains(&r.name) {
            let kind = if matches!(r.rtype_with_data, RecordTypeWithData::NS { .. }) && q.name.is_subdomain_of(&r.name) {
                "delegation-NS-set-placed-in-the-answer-section"
            } else {
                "other"
            };
            return Some((
                format!("C09:answer-section-holds-record-not-on-the-question's-chain:{kind}"),
                format!("{} in the answer to {}", show_rr(r), question_json(q)),
            ));
        }
    }
    None
}

// ---------------------------------------------------------------------------
// C09 inputs

fn c09_inputs(rng: &mut Rng, names: &[DomainName], n_random: usize, udp: bool) -> Vec<(String, Vec<u8>)> {
    let mut v: Vec<(String, Vec<u8>)> = Vec::new();
    let maxlen = if udp { 512 } else { 65535 };
    // zone names x types, RD on and off
    for n in names {
        for t in [1u16, 28, 16, 15, 2, 5, 6, 255, 252, 12, 33] {
            for rd in [0u16, 0x0100] {
                v.push(("zone-question".into(), build_query(0, rd, n, t, 1)));
            }
        }
    }
    // every qtype 0..260 and 65535, classes
    for t in (0u16..=260).chain([65535u16]) {
        v.push(("qtype-sweep".into(), build_query(0, 0x0100, &names[1], t, 1)));
    }
    for c in [0u16, 1, 3, 4, 254, 255, 256, 65535] {
        v.push(("qclass-sweep".into(), build_query(0, 0, &names[1], 1, c)));
    }
    // QDCOUNT 0..3
    for qd in 0u16..=3 {
        let mut m = vec![0, 0, 0x01, 0x00];
        m.extend_from_slice(&qd.to_be_bytes());
        m.extend_from_slice(&[0, 0, 0, 0, 0, 0]);
        for _ in 0..qd {
            put_name(&mut m, &names[1]);
            m.extend_from_slice(&[0, 1, 0, 1]);
        }
        v.push((format!("qdcount-{qd}"), m));
    }
    // short things
    for n in 0..12usize {
        v.push((format!("short-{n}"), vec![0xABu8; n]));
    }
    // generated valid messages (queries and responses), semi-random
    for _ in 0..n_random {
        let m = gen_message(rng, 3, 40);
        if let Ok(b) = m.to_octets() {
            if b.len() <= maxlen {
                v.push(("generated-message".into(), b.to_vec()));
            }
        }
        // random bytes with a query-like header
        let len = rng.range(12, 80);
        let mut b = rng.bytes(len);
        b[2] &= 0x79; // QR=0, keep opcode/RD
        b[4] = 0;
        b[5] = rng.below(3) as u8;
        b[6] = 0;
        b[7] = 0;
        b[8] = 0;
        b[9] = 0;
        b[10] = 0;
        b[11] = 0;
        for x in b.iter_mut().skip(12) {
            if rng.chance(1, 3) {
                *x &= 7;
            }
        }
        v.push(("random-query-like".into(), b));
        // mutated valid question
        let mut qb = build_query(0, if rng.bool() { 0x0100 } else { 0 }, rng.pick(names), *rng.pick(&[1u16, 16, 28, 255]), 1);
        if rng.chance(1, 2) {
            let pos = rng.range(2, qb.len() - 1);
            qb[pos] = rng.next_u32() as u8;
        }
        if rng.chance(1, 6) {
            let cut = rng.range(2, qb.len());
            qb.truncate(cut);
        }
        if rng.chance(1, 8) {
            qb.extend_from_slice(&rng.bytes(5));
        }
        v.push(("mutated-question".into(), qb));
    }
    v
}

fn header_sweep(name: &DomainName) -> Vec<(String, Vec<u8>)> {
    // all 2^16 values of the two flag octets on a valid question
    (0u32..65536).map(|f| ("header-sweep".to_string(), build_query(0, f as u16, name, 1, 1))).collect()
}

fn adversarial_tcp(names: &[DomainName]) -> Vec<(String, Vec<u8>)> {
    let mut v = Vec::new();
    // maximal pointer chain: header + question + TXT blob with the chain + a record pointing at its end
    let base = 12 + 5 + 11;
    let mut blob = vec![0u8];
    let mut prev = base;
    loop {
        let here = base + blob.len();
        blob.push(0xC0 | ((prev >> 8) as u8));
        blob.push((prev & 0xff) as u8);
        prev = here;
        if base + blob.len() + 4 > 0x3fff {
            break;
        }
    }
    let mut m = vec![0x12, 0x34, 0x00, 0x00, 0, 1, 0, 2, 0, 0, 0, 0];
    m.extend_from_slice(&[0, 0, 1, 0, 1]);
    m.extend_from_slice(&[0, 0, 16, 0, 1, 0, 0, 0, 60]);
    m.extend_from_slice(&(blob.len() as u16).to_be_bytes());
    m.extend_from_slice(&blob);
    m.extend_from_slice(&[0xC0 | ((prev >> 8) as u8), (prev & 0xff) as u8, 0, 1, 0, 1, 0, 0, 0, 60, 0, 4, 10, 0, 0, 1]);
    v.push(("max-pointer-chain".to_string(), m));
    // 65535 in every count with 12 bytes of body
    v.push(("huge-counts".to_string(), vec![0x43, 0x21, 0, 0, 0xff, 0xff, 0xff, 0xff, 0xff, 0xff, 0xff, 0xff, 0, 0, 0, 0, 0, 0, 0, 0, 0, 0, 0, 0]));
    // 13104 questions filling 64 KiB
    let mut big = vec![0x55, 0x66, 0x01, 0x00, 0x33, 0x30, 0, 0, 0, 0, 0, 0];
    for _ in 0..13104 {
        big.extend_from_slice(&[0, 0, 1, 0, 1]);
    }
    v.push(("64k-of-questions".to_string(), big));
    // a 60000-byte valid query (question + one huge additional record)
    let mut q = build_query(0x0102, 0x0100, &names[1], 1, 1);
    q[11] = 1;
    q.extend_from_slice(&[0, 0, 10, 0, 1, 0, 0, 0, 0]);
    q.extend_from_slice(&60000u16.to_be_bytes());
    q.extend(std::iter::repeat(0x5a).take(60000));
    v.push(("60k-query".to_string(), q));
    v
}

struct C09Shared {
    messages: AtomicU64,
    replies: AtomicU64,
    retries: AtomicU64,
    no_reply_confirmed: AtomicU64,
    stop: AtomicBool,
}

/// A forwarder on loopback (UDP) with a fixed, stateless repertoire under `fwd.test.`: a positive answer, an alias plus
/// its target, a name error with SOA, an empty answer with SOA; REFUSED for everything else.  All TTLs are 0, so
/// nothing is cached and the server under test and the in-process expectation see the same thing every time.
fn spawn_fake_forwarder() -> std::io::Result<SocketAddr> {
    use verif_harness::netsim::{encode, reply_to};
    let sock = UdpSocket::bind("127.0.0.1:0")?;
    let addr = sock.local_addr()?;
    std::thread::spawn(move || {
        let zone = dn("fwd.test.");
        let soa = rr(
            &zone,
            RecordTypeWithData::SOA {
                mname: dn("ns.fwd.test."),
                rname: dn("admin.fwd.test."),
                serial: 7,
                refresh: 1,
                retry: 1,
                expire: 1,
                minimum: 0,
            },
            0,
        );
        let pos = rr(&dn("pos.fwd.test."), a(Ipv4Addr::new(10, 9, 8, 7)), 0);
        let mut buf = [0u8; 1500];
        loop {
            let Ok((n, from)) = sock.recv_from(&mut buf) else { continue };
            let Ok(req) = Message::from_octets(&buf[..n]) else { continue };
            let Some(q) = req.questions.first() else { continue };
            let first = q.name.labels.first().map(|l| l.octets().to_vec()).unwrap_or_default();
            let is_a = q.qtype == QueryType::Record(RecordType::A);
            let reply = if !q.name.is_subdomain_of(&zone) || !req.header.recursion_desired {
                reply_to(&req, Rcode::Refused, false, vec![], vec![], vec![])
            } else {
                match first.as_slice() {
                    b"pos" if is_a => reply_to(&req, Rcode::NoError, false, vec![pos.clone()], vec![], vec![]),
                    b"alias" if is_a => reply_to(&req, Rcode::NoError, false, vec![rr(&q.name, cname(&dn("pos.fwd.test.")), 0), pos.clone()], vec![], vec![]),
                    b"pos" | b"alias" | b"nodata" => reply_to(&req, Rcode::NoError, false, vec![], vec![soa.clone()], vec![]),
                    b"neg" => reply_to(&req, Rcode::NameError, false, vec![], vec![soa.clone()], vec![]),
                    _ => reply_to(&req, Rcode::Refused, false, vec![], vec![], vec![]),
                }
            };
            let _ = sock.send_to(&encode(&reply), from);
        }
    });
    Ok(addr)
}

#[allow(clippy::too_many_lines)]
fn c09_mode(args: &Args, run: &Run, authoritative_only: bool, salt: u64) -> Result<(), String> {
    let seed = args.seed;
    let dir = PathBuf::from(format!("/verif/target/scratch/c09-{}-{salt}", std::process::id()));
    let (mut sargs, mut names) = write_c09_config(&dir);
    // recursion offered: a forwarder on loopback that knows four names (positive, alias, name error, no data - the
    // latter two with a SOA to relay) and refuses everything else at once
    let closed: SocketAddr = if authoritative_only { "127.0.0.1:9".parse().unwrap() } else { spawn_fake_forwarder().map_err(|e| format!("fake forwarder: {e}"))? };
    if !authoritative_only {
        for n in ["pos.fwd.test.", "alias.fwd.test.", "neg.fwd.test.", "nodata.fwd.test."] {
            names.push(dn(n));
        }
    }
    if authoritative_only {
        sargs.push("--authoritative-only".into());
    } else {
        sargs.push("-f".into());
        sargs.push(closed.to_string());
    }
    let server = Arc::new(Mutex::new(Server::spawn(&sargs, "warn", salt)?));
    let addr = server.lock().unwrap().addr;
    let shared = Arc::new(C09Shared {
        messages: AtomicU64::new(0),
        replies: AtomicU64::new(0),
        retries: AtomicU64::new(0),
        no_reply_confirmed: AtomicU64::new(0),
        stop: AtomicBool::new(false),
    });
    let n_random = args.size(2_500, 150_000) as usize;
    let sweep = header_sweep(&names[1]);
    let mode_name = if authoritative_only { "authoritative-only" } else { "recursion-offered" };

    run.parallel(THREADS, 8 << 20, |ti, sh| {
        let mut rng = Rng::new(seed).fork(0x0900 + ti as u64 + salt * 100);
        let mut inproc = InProcess::new(&dir, !authoritative_only, if authoritative_only { None } else { Some(closed) });
        let mut client = UdpClient::new(addr);
        let probe_q = build_query(0, 0, &names[1], 1, 1);
        // ---- UDP
        let mut inputs = c09_inputs(&mut rng, &names, n_random, true);
        // the header sweep is split over the threads
        inputs.extend(sweep.iter().enumerate().filter(|(i, _)| i % THREADS == ti).map(|(_, x)| x.clone()));
        rng.shuffle(&mut inputs);
        for chunk in inputs.chunks(24) {
            if shared.stop.load(Ordering::Relaxed) {
                return;
            }
            let msgs: Vec<Vec<u8>> = chunk.iter().map(|c| c.1.iter().copied().take(512).collect()).collect();
            // whether a reply is due decides only the retransmission policy here; the verdict below is computed from
            // the bytes as finally sent (the ID is part of the message: a pointer into the header reads it)
            let due: Vec<bool> = msgs.iter().map(|m| expectation(m).0 != Expect::NoReply).collect();
            let (obs, mut strays) = client.run_chunk(&msgs, &due);
            let exps: Vec<(Expect, Option<refw::RMsg>)> = obs.iter().map(|o| expectation(&o.sent)).collect();
            // liveness: some reply arrived in this chunk, else a sentinel query must be answered
            let any_reply = obs.iter().any(|o| !o.replies.is_empty());
            let sentinel_ok = any_reply || {
                let (sent_obs, s2) = client.run_chunk(&[probe_q.clone()], &[true]);
                strays.extend(s2);
                !sent_obs[0].replies.is_empty()
            };
            if !sentinel_ok {
                let mut srv = server.lock().unwrap();
                let status = srv.exit_status();
                let what = match (&status, srv.panicked()) {
                    (Some(st), _) => format!("server process exited ({st}); stderr: {}", truncate(&srv.stderr.lock().unwrap(), 300)),
                    (None, Some(p)) => format!("server stopped answering; stderr: {p}"),
                    (None, None) => "server stopped answering a known-good query (3 attempts)".to_string(),
                };
                sh.violation(
                    format!("C09:server-down:{mode_name}"),
                    what,
                    json!({"kind": "udp-chunk", "mode": mode_name, "messages_hex": msgs.iter().map(|m| hex(m)).collect::<Vec<_>>()}),
                );
                shared.stop.store(true, Ordering::Relaxed);
                return;
            }
            for (((class, _), (exp, sent_msg)), o) in chunk.iter().zip(exps.iter()).zip(obs.iter()) {
                sh.eval();
                shared.messages.fetch_add(1, Ordering::Relaxed);
                shared.replies.fetch_add(o.replies.len() as u64, Ordering::Relaxed);
                shared.retries.fetch_add(u64::from(o.attempts.saturating_sub(1)), Ordering::Relaxed);
                sh.count(&format!("udp:{class}"), 1);
                sh.count(&format!("expect:{}", match exp { Expect::NoReply => "no-reply", Expect::FormErr => "FORMERR", Expect::NotImp => "NOTIMP", Expect::Refused => "REFUSED", Expect::Resolve(_) => "resolved", Expect::OneReply => "one-reply" }), 1);
                let replay = || json!({"kind": "udp", "mode": mode_name, "class": class, "sent_hex": hex(&o.sent), "replies_hex": o.replies.iter().map(|r| hex(r)).collect::<Vec<_>>(), "attempts": o.attempts});
                if *exp == Expect::NoReply {
                    shared.no_reply_confirmed.fetch_add(1, Ordering::Relaxed);
                    if !o.replies.is_empty() {
                        let why = if o.sent.len() < 2 { "too-short-for-an-id" } else { "flagged-as-response" };
                        sh.violation(format!("C09:reply-to-message-that-must-not-be-answered:{why}"), format!("{} reply(ies)", o.replies.len()), replay());
                    }
                    continue;
                }
                if o.replies.is_empty() {
                    sh.violation(
                        format!("C09:no-reply:{}", match exp { Expect::FormErr => "unparseable-input", Expect::NotImp => "non-standard-opcode", Expect::Refused => "refusable-query", _ => "standard-query" }),
                        format!("no reply after {} transmissions", o.attempts),
                        replay(),
                    );
                    continue;
                }
                if o.replies.len() > 1 {
                    sh.violation("C09:more-than-one-reply", format!("{} replies to one message", o.replies.len()), replay());
                    continue;
                }
                if !o.unanswered_ids.is_empty() {
                    sh.violation(
                        "C09:datagram-left-without-its-reply",
                        format!(
                            "transmission(s) with id {:?} never got a reply (waited >= 1.5 s) although a retransmission of the same bytes was answered",
                            o.unanswered_ids
                        ),
                        replay(),
                    );
                    continue;
                }
                let reply = &o.replies[0];
                if reply.len() > 512 {
                    sh.violation("C09:udp-reply-over-512", format!("{} bytes", reply.len()), replay());
                    continue;
                }
                if let Some((sig, what)) = check_header(&o.sent, sent_msg.as_ref(), exp, reply, !authoritative_only) {
                    sh.violation(sig, what, replay());
                    continue;
                }
                sh.nontrivial(fnv_mix(fnv(&o.sent[2..]), salt));
                // TC / 512 rule and section semantics through the TCP twin
                if let Expect::Resolve(q) = exp {
                    if rng.chance(1, 3) || reply[2] & 2 != 0 || reply.len() >= 500 {
                        match tcp_exchange(addr, &framed(&o.sent), false) {
                            Ok(t) if t.len() >= 2 => {
                                let body = &t[2..];
                                let cut = body.len() > 512;
                                let tc = reply[2] & 2 != 0;
                                sh.count(if tc { "udp-replies-with-TC" } else { "udp-replies-checked-against-tcp-twin" }, 1);
                                if tc != cut {
                                    sh.violation("C09:TC-not-set-exactly-when-cut-short", format!("full reply {} bytes, TC={tc}", body.len()), replay());
                                    continue;
                                }
                                let mut want = body[..body.len().min(512)].to_vec();
                                if cut {
                                    want[2] |= 2;
                                }
                                if &want != reply {
                                    sh.violation("C09:udp-reply-is-not-the-tcp-reply-cut-at-512", format!("udp {} bytes, tcp {} bytes", reply.len(), body.len()), replay());
                                    continue;
                                }
                                if let Some(ip) = inproc.as_mut() {
                                    let rd = sent_msg.as_ref().is_some_and(|m| m.rd);
                                    if let Some(w) = ip.expected(q, rd) {
                                        if let Some((sig, what)) = check_semantics(q, body, &w) {
                                            sh.violation(sig, what, json!({"kind": "tcp", "mode": mode_name, "question": question_json(q), "sent_hex": hex(&o.sent), "reply_hex": hex(body)}));
                                        }
                                        sh.count("replies-compared-with-in-process-resolver", 1);
                                    }
                                }
                            }
                            Ok(_) => sh.violation("C09:tcp-twin-got-no-reply", "the same query over TCP got no reply", replay()),
                            Err(e) => sh.violation("C09:tcp-twin-failed", e, replay()),
                        }
                    }
                }
            }
            for s in strays {
                // the ready-probe id and ids of earlier sockets cannot appear here: every socket is fresh and private
                sh.violation("C09:datagram-matching-no-message-sent", format!("{} bytes: {}", s.len(), hex(&s[..s.len().min(24)])), json!({"kind": "stray", "hex": hex(&s)}));
            }
        }
        // ---- TCP
        let mut tcp_inputs = c09_inputs(&mut rng, &names, n_random / 4, false);
        if ti == 0 {
            tcp_inputs.extend(adversarial_tcp(&names));
        }
        rng.shuffle(&mut tcp_inputs);
        for (k, (class, body)) in tcp_inputs.iter().enumerate() {
            if shared.stop.load(Ordering::Relaxed) {
                return;
            }
            sh.eval();
            shared.messages.fetch_add(1, Ordering::Relaxed);
            // framing variant
            let variant = if class == "zone-question" || body.len() > 2000 { 0 } else { rng.below(8) };
            let mut body = body.clone();
            if body.len() >= 2 {
                body[0] = 0xE0 | (ti as u8);
                body[1] = k as u8;
            }
            let (wire, half_close, effective): (Vec<u8>, bool, Option<Vec<u8>>) = match variant {
                // exact framing
                0..=3 => (framed(&body), false, Some(body.clone())),
                // prefix larger than the body, then end of stream
                4 => {
                    let mut w = ((body.len() + rng.range(1, 50)) as u16).to_be_bytes().to_vec();
                    w.extend_from_slice(&body);
                    (w, true, None)
                }
                // prefix smaller than the body: the message is the prefix-many bytes
                5 if body.len() > 2 => {
                    let n = rng.range(0, body.len() - 1);
                    let mut w = (n as u16).to_be_bytes().to_vec();
                    w.extend_from_slice(&body);
                    (w, false, Some(body[..n].to_vec()))
                }
                // 0 or 1 byte, then end of stream
                6 => (vec![0u8; rng.below(2)], true, Some(Vec::new())),
                // extra bytes after a correctly framed message
                _ => {
                    let mut w = framed(&body);
                    w.extend_from_slice(&rng.bytes(7));
                    (w, false, Some(body.clone()))
                }
            };
            sh.count(&format!("tcp:framing-variant-{}", match variant { 0..=3 => "exact", 4 => "prefix-too-large-then-FIN", 5 => "prefix-too-small", 6 => "0-or-1-byte-then-FIN", _ => "trailing-bytes" }), 1);
            sh.count(&format!("tcp:{class}"), 1);
            let (got, was_reset) = match tcp_exchange2(addr, &wire, half_close) {
                Ok(g) => g,
                Err(e) => {
                    sh.violation("C09:tcp-connection-left-hanging", e, json!({"kind": "tcp", "mode": mode_name, "wire_hex": hex(&wire[..wire.len().min(4000)])}));
                    continue;
                }
            };
            let replay = || json!({"kind": "tcp", "mode": mode_name, "class": class, "framing_variant": variant, "wire_hex": hex(&wire[..wire.len().min(6000)]), "wire_len": wire.len(), "received_hex": hex(&got[..got.len().min(6000)])});
            // what is due
            let (exp, sent_msg, sent_bytes) = match (&effective, variant) {
                (Some(eff), _) => {
                    let (e, m) = expectation(eff);
                    (e, m, eff.clone())
                }
                (None, _) => {
                    // incomplete message: FORMERR with the id if at least two bytes of it arrived, else nothing
                    if body.len() >= 2 {
                        (Expect::FormErr, None, body.clone())
                    } else {
                        (Expect::NoReply, None, body.clone())
                    }
                }
            };
            if exp == Expect::NoReply {
                shared.no_reply_confirmed.fetch_add(1, Ordering::Relaxed);
                if !got.is_empty() {
                    sh.violation("C09:reply-to-message-that-must-not-be-answered:tcp", format!("{} bytes came back", got.len()), replay());
                }
                continue;
            }
            // bytes the server never read make its close a reset, which can destroy a reply already sent:
            // nothing can be concluded from what did (not) arrive
            if was_reset && (got.len() < 2 || u16::from_be_bytes([got[0], got[1]]) as usize != got.len() - 2) {
                sh.count("tcp:inconclusive-connection-reset-after-unread-bytes", 1);
                continue;
            }
            if got.len() < 2 {
                sh.violation(
                    format!("C09:no-reply:tcp:{}", match exp { Expect::FormErr => "unparseable-or-incomplete-input", Expect::NotImp => "non-standard-opcode", Expect::Refused => "refusable-query", _ => "standard-query" }),
                    format!("connection closed after {} bytes", got.len()),
                    replay(),
                );
                continue;
            }
            let plen = u16::from_be_bytes([got[0], got[1]]) as usize;
            if plen != got.len() - 2 {
                sh.violation("C09:tcp-length-prefix-wrong", format!("prefix says {plen}, {} bytes follow", got.len() - 2), replay());
                continue;
            }
            shared.replies.fetch_add(1, Ordering::Relaxed);
            let reply = &got[2..];
            if let Some((sig, what)) = check_header(&sent_bytes, sent_msg.as_ref(), &exp, reply, !authoritative_only) {
                sh.violation(sig, what, replay());
                continue;
            }
            if reply.len() >= 3 && reply[2] & 2 != 0 {
                sh.violation("C09:TC-set-on-a-tcp-reply", "TC on a complete TCP reply", replay());
            }
            sh.nontrivial(fnv_mix(fnv(&wire[..wire.len().min(4096)]), 0x7c9 + salt));
            if let (Expect::Resolve(q), Some(ip)) = (&exp, inproc.as_mut()) {
                let rd = sent_msg.as_ref().is_some_and(|m| m.rd);
                if let Some(w) = ip.expected(q, rd) {
                    if let Some((sig, what)) = check_semantics(q, reply, &w) {
                        sh.violation(sig, what, replay());
                    }
                    sh.count("replies-compared-with-in-process-resolver", 1);
                }
            }
        }
        // final liveness
        let (o, _) = client.run_chunk(&[probe_q.clone()], &[true]);
        if o[0].replies.is_empty() {
            sh.violation(format!("C09:server-down:{mode_name}"), "no reply to the final liveness probe", json!({"kind": "liveness"}));
        }
        if sh.want_sample() && ti == 0 {
            sh.sample(json!({"mode": mode_name, "example_query_hex": hex(&probe_q), "example_reply_hex": o[0].replies.first().map(|r| hex(r))}));
        }
    });
    let mut srv = server.lock().unwrap();
    if let Some(st) = srv.exit_status() {
        let mut sh = Shard::new();
        sh.violation(format!("C09:server-down:{mode_name}"), format!("process exited: {st}"), json!({"stderr": *srv.stderr.lock().unwrap()}));
        run.merge(sh);
    } else if let Some(p) = srv.panicked() {
        let mut sh = Shard::new();
        sh.violation(format!("C09:task-panicked:{mode_name}"), p, json!({"stderr": *srv.stderr.lock().unwrap()}));
        run.merge(sh);
    }
    run.set_extra(
        &format!("accounting:{mode_name}"),
        json!({"messages_sent": shared.messages.load(Ordering::Relaxed), "replies_matched": shared.replies.load(Ordering::Relaxed),
               "udp_retransmissions": shared.retries.load(Ordering::Relaxed), "no_reply_cases_confirmed_by_sentinel_or_eof": shared.no_reply_confirmed.load(Ordering::Relaxed)}),
    );
    drop(srv);
    let _ = std::fs::remove_dir_all(&dir);
    Ok(())
}

fn c09(args: Args) {
    let mut run = Run::new(
        args.clone(),
        "exploration",
        "the release binary on loopback, one instance per mode (authoritative-only; recursion offered, forwarding to a small stateless \
         forwarder on loopback that knows a positive answer, an alias, a name error and an empty answer - the last two with a \
         SOA to relay - and refuses the rest), 8 client threads each owning its sockets and issuing strictly increasing IDs so that (socket, ID) identifies a \
         message. UDP: zone questions (answers, >512-byte RRsets, alias chains and loops, wildcards, delegation, NXDOMAIN, hosts, \
         unanswerable) x 11 qtypes x RD; every qtype 0..260 and 65535; 8 classes; QDCOUNT 0..3; 0..11-byte datagrams; all 65536 \
         values of the flag octets on a valid question; generated valid messages incl. responses; random query-like bytes; \
         mutated / truncated / extended questions. TCP: the same plus the 8177-hop pointer chain, 65535 in every count, 64 KiB \
         of questions, a 60 KB query; framing variants (exact, prefix too large then FIN, prefix too small, 0/1 byte then FIN, \
         trailing bytes). Oracle: exactly-once accounting per (socket, ID) with retransmission and sentinel; header rules from \
         the bytes sent (own decoder); UDP reply = TCP reply cut at 512 with TC; TCP prefix = length; sections/AA/RCODE = \
         dns_resolver::resolve on the same files in process; answer-section structure; liveness after every chunk. \
         non-trivial = message that got a reply which passed the header rules; distinct = distinct message bodies per mode.",
    );
    run.assume("a missing UDP reply is retransmitted (new ID) up to 3 times before it counts; zero-reply cases are confirmed by a following sentinel query on the same socket");
    run.assume("the harness decides parseability with its own decoder (the equivalence with the server's decoder is C03's business)");
    for (salt, auth_only) in [(1u64, true), (2u64, false)] {
        if let Err(e) = c09_mode(&args, &run, auth_only, salt) {
            println!("INCONCLUSIVE property=C09 {e}");
            std::process::exit(2);
        }
    }
    run.finish(500);
}

// ---------------------------------------------------------------------------
// C19

#[derive(Clone, Debug)]
struct GenFiles {
    g: u32,
}

fn ip_of(g: u32, last: u8) -> String {
    format!("10.{}.{}.{last}", (g >> 8) & 0xff, g & 0xff)
}

fn write_atomic(path: &Path, content: &str) {
    // the temporary file lives outside the -Z/-A directories, so a reload running during an edit never lists it
    let parent = path.parent().unwrap();
    let root = if parent.extension().is_some_and(|e| e == "d") { parent.parent().unwrap() } else { parent };
    let tmp = root.join(".tmp-write");
    std::fs::write(&tmp, content).unwrap();
    std::fs::rename(&tmp, path).unwrap();
}

/// Write all files of generation g.  `extra_dir_file`: whether the optional file in the -Z directory exists in this generation.
fn write_generation(dir: &Path, g: u32, extra_dir_file: bool, bulk: &str) {
    let a = format!(
        "$ORIGIN a.test.\n@ 300 IN SOA ns admin {g} 1 1 1 60\ngen 300 IN TXT \"{g}\"\np 300 IN CNAME q{g}.b.test.\nonly{g} 300 IN A {}\n{bulk}",
        ip_of(g, 1)
    );
    write_atomic(&dir.join("a.test.zone"), &a);
    let b = format!("$ORIGIN b.test.\n@ 300 IN SOA ns admin {g} 1 1 1 60\ngen 300 IN TXT \"{g}\"\nq{g} 300 IN A {}\n", ip_of(g, 2));
    write_atomic(&dir.join("zones.d/b.test.zone"), &b);
    let hints = format!("hint.example. 300 IN A {}\n", ip_of(g, 4));
    write_atomic(&dir.join("zones.d/hints.zone"), &hints);
    write_atomic(&dir.join("hosts"), &format!("{} host.hosts.test\n", ip_of(g, 3)));
    write_atomic(&dir.join("hosts.d/more"), &format!("{} dirhost.hosts.test\n", ip_of(g, 5)));
    let extra = dir.join("zones.d/extra.zone");
    if extra_dir_file {
        write_atomic(&extra, &format!("$ORIGIN c.test.\n@ 300 IN SOA ns admin {g} 1 1 1 60\ngen 300 IN TXT \"{g}\"\n"));
    } else {
        let _ = std::fs::remove_file(&extra);
    }
}

/// The probes: (name, qtype) and how to read the generation out of an answer.
fn probes() -> Vec<(DomainName, u16)> {
    vec![
        (dn("gen.a.test."), 16),
        (dn("gen.b.test."), 16),
        (dn("p.a.test."), 1),
        (dn("host.hosts.test."), 1),
        (dn("dirhost.hosts.test."), 1),
        (dn("hint.example."), 1),
        (dn("gen.c.test."), 16),
    ]
}

#[derive(Clone, Debug, PartialEq, Eq)]
enum Seen {
    /// the answer is the one generation g gives (for probes whose answer exists in that generation)
    Gen(u32),
    /// the extra zone is not configured (REFUSED / SERVFAIL / NXDOMAIN from the root): consistent with any generation without it
    Absent,
    /// records of different generations in one answer
    Mixed(String),
    Other(String),
}

fn gen_of_ip(a: &Ipv4Addr) -> u32 {
    let o = a.octets();
    (u32::from(o[1]) << 8) | u32::from(o[2])
}

fn read_answer(probe: usize, reply: &[u8]) -> Seen {
    let Ok(m) = Message::from_octets(reply) else {
        return Seen::Other("unparseable reply".into());
    };
    let rcode = u8::from(m.header.rcode);
    match probe {
        0 | 1 | 6 => {
            if m.answers.len() == 1 {
                if let RecordTypeWithData::TXT { octets } = &m.answers[0].rtype_with_data {
                    if let Ok(g) = String::from_utf8_lossy(octets).parse::<u32>() {
                        // the SOA serial in the authority section must agree (same file)
                        for a in &m.authority {
                            if let RecordTypeWithData::SOA { serial, .. } = &a.rtype_with_data {
                                if *serial != g {
                                    return Seen::Mixed(format!("TXT says generation {g}, SOA serial {serial}"));
                                }
                            }
                        }
                        return Seen::Gen(g);
                    }
                }
            }
            if probe == 6 && m.answers.is_empty() {
                return Seen::Absent;
            }
            Seen::Other(format!("rcode {rcode}, {} answers", m.answers.len()))
        }
        2 => {
            // p.a.test CNAME q<g>.b.test + q<g>.b.test A 10.g.g.2 : both halves come from different files
            let mut cg = None;
            let mut ag = None;
            for r in &m.answers {
                match &r.rtype_with_data {
                    RecordTypeWithData::CNAME { cname } => {
                        let s = cname.to_dotted_string();
                        cg = s.strip_prefix('q').and_then(|x| x.split('.').next()).and_then(|x| x.parse::<u32>().ok());
                    }
                    RecordTypeWithData::A { address } => ag = Some(gen_of_ip(address)),
                    _ => {}
                }
            }
            match (cg, ag) {
                (Some(c), Some(a)) if c == a => Seen::Gen(c),
                (Some(c), Some(a)) => Seen::Mixed(format!("alias from generation {c}, address from generation {a}")),
                (Some(c), None) => Seen::Mixed(format!("alias from generation {c}, but its target (in the other file) is missing; rcode {rcode}")),
                _ => Seen::Other(format!("rcode {rcode}, {} answers", m.answers.len())),
            }
        }
        _ => {
            if m.answers.len() == 1 {
                if let RecordTypeWithData::A { address } = &m.answers[0].rtype_with_data {
                    return Seen::Gen(gen_of_ip(address));
                }
            }
            Seen::Other(format!("rcode {rcode}, {} answers", m.answers.len()))
        }
    }
}

#[derive(Clone, Debug)]
struct QueryLog {
    probe: usize,
    sent: Instant,
    received: Instant,
    seen: Seen,
    tcp: bool,
}

#[derive(Clone, Debug)]
struct Epoch {
    /// configuration generation in force
    g: u32,
    has_extra: bool,
    /// earliest instant at which it can have come into force (signal sent)
    possible_from: Instant,
    /// instant from which it is certainly in force (we saw "done - success")
    certain_from: Instant,
    /// Some(h): the files were being rewritten for generation h while this configuration was read, so each file is of
    /// generation g or h independently (the harness's doing, not the server's)
    mix_with: Option<u32>,
}

#[allow(clippy::too_many_lines)]
fn c19(args: Args) {
    let mut run = Run::new(
        args.clone(),
        "exploration",
        "the release binary with two explicit zone files, a -Z directory (two to three files), a hosts file and a -A directory; \
         every RDATA carries the generation number, names exist only in their generation, and an alias in one file points at a \
         name that exists only in the same generation of another file, so a mixed read shows inside a single answer. Steps: \
         rewrite all files for the next generation (temp + rename, only while no reload runs), or additionally break the \
         configuration (syntactically bad zone or hosts file in a directory, bad explicitly listed hosts file, dangling symlink, explicitly \
         listed file removed, -Z or -A directory missing; each kind once per shuffled deck of 14 steps), then 1..3 \
         SIGUSR1 in a burst; every eighth step instead edits, signals, waits for 'received', edits again (one of the two versions \
         without the 30,000 bulk records, so the two loads differ greatly in length) and signals again; 8 client threads query seven probes throughout over UDP and TCP, logging send and receive times; \
         the server's own 'received' / 'done - success|failure' lines are time-stamped on arrival. Oracle: every answer equals \
         the answer of one generation that can have been in force at some instant between send and receive; after an observed \
         'done - success' only the new one, after 'done - failure' only the previous one; no mixed answers; no query without a \
         reply (3 transmissions); over the reloads that take >= 100 ms, some query sent during a reload is answered during \
         it; the process stays up. non-trivial = query whose flight overlapped a reload or followed one; \
         distinct = distinct (probe, generation seen, reload index).",
    );
    run.assume("every file is replaced by temp file + rename (the temp file outside the listed directories), so the server never reads a half-written file; edits are made between reloads, except in the edit-while-reloading steps, where the load that overlaps the edit may see each file in either generation and only the state after the last reload is judged strictly");
    run.assume("times are taken in the harness: a log line is seen no earlier than it was written, a reply no earlier than it was sent — both errors widen the set of acceptable generations, never narrow it");
    let seed = args.seed;
    let steps = args.size(25, 1500) as usize;
    let dir = PathBuf::from(format!("/verif/target/scratch/c19-{}", std::process::id()));
    let _ = std::fs::remove_dir_all(&dir);
    std::fs::create_dir_all(dir.join("zones.d")).unwrap();
    std::fs::create_dir_all(dir.join("hosts.d")).unwrap();
    // bulk records make a reload take long enough for queries to overlap it
    let mut bulk = String::new();
    for i in 0..args.tier.pick(30_000, 30_000) {
        bulk.push_str(&format!("bulk{i} 300 IN A 10.200.{}.{}\n", (i >> 8) & 0xff, i & 0xff));
    }
    let mut g: u32 = 1;
    write_generation(&dir, g, false, &bulk);
    let sargs: Vec<String> = vec![
        "--authoritative-only".into(),
        "-z".into(),
        dir.join("a.test.zone").to_string_lossy().into(),
        "-Z".into(),
        dir.join("zones.d").to_string_lossy().into(),
        "-a".into(),
        dir.join("hosts").to_string_lossy().into(),
        "-A".into(),
        dir.join("hosts.d").to_string_lossy().into(),
    ];
    let mut server = match Server::spawn(&sargs, "resolved[SIGUSR1]=info", 3) {
        Ok(s) => s,
        Err(e) => {
            println!("INCONCLUSIVE property=C19 {e}");
            std::process::exit(2);
        }
    };
    let addr = server.addr;
    let start = Instant::now();
    let epochs: Arc<Mutex<Vec<Epoch>>> = Arc::new(Mutex::new(vec![Epoch {
        g,
        has_extra: false,
        possible_from: start,
        certain_from: start,
        mix_with: None,
    }]));
    let stop = Arc::new(AtomicBool::new(false));
    let logs: Arc<Mutex<Vec<QueryLog>>> = Arc::new(Mutex::new(Vec::new()));
    let lost: Arc<Mutex<Vec<String>>> = Arc::new(Mutex::new(Vec::new()));
    let pr = probes();
    // clients
    let mut handles = Vec::new();
    for ti in 0..THREADS {
        let stop = stop.clone();
        let logs = logs.clone();
        let lost = lost.clone();
        let pr = pr.clone();
        handles.push(std::thread::spawn(move || {
            let mut rng = Rng::new(seed).fork(0x1900 + ti as u64);
            let sock = UdpSocket::bind("127.0.0.1:0").unwrap();
            sock.connect(addr).unwrap();
            sock.set_read_timeout(Some(Duration::from_millis(700))).ok();
            let mut id: u16 = 1;
            let mut local: Vec<QueryLog> = Vec::new();
            while !stop.load(Ordering::Relaxed) {
                let p = rng.below(pr.len());
                let tcp = rng.chance(1, 10);
                let mut reply: Option<(Instant, Instant, Vec<u8>)> = None;
                for _attempt in 0..3 {
                    id = id.wrapping_add(1);
                    let q = build_query(id, 0, &pr[p].0, pr[p].1, 1);
                    let sent = Instant::now();
                    if tcp {
                        if let Ok(r) = tcp_exchange(addr, &framed(&q), false) {
                            if r.len() > 2 {
                                reply = Some((sent, Instant::now(), r[2..].to_vec()));
                                break;
                            }
                        }
                    } else {
                        let _ = sock.send(&q);
                        let mut buf = [0u8; 1024];
                        loop {
                            match sock.recv(&mut buf) {
                                Ok(n) if n >= 2 && buf[0] == (id >> 8) as u8 && buf[1] == id as u8 => {
                                    reply = Some((sent, Instant::now(), buf[..n].to_vec()));
                                    break;
                                }
                                Ok(_) => continue, // a late reply to an earlier transmission
                                Err(_) => break,
                            }
                        }
                        if reply.is_some() {
                            break;
                        }
                    }
                }
                match reply {
                    Some((s, r, bytes)) => local.push(QueryLog {
                        probe: p,
                        sent: s,
                        received: r,
                        seen: read_answer(p, &bytes),
                        tcp,
                    }),
                    None => lost.lock().unwrap().push(format!("probe {} ({})", p, if tcp { "tcp" } else { "udp" })),
                }
                if local.len() >= 2000 {
                    logs.lock().unwrap().append(&mut local);
                }
            }
            logs.lock().unwrap().append(&mut local);
        }));
    }

    // the reload driver
    let mut rng = Rng::new(seed).fork(0x19ff);
    let mut sh = Shard::new();
    sh.max_samples = 4;
    let mut reload_records: Vec<Value> = Vec::new();
    let mut has_extra = false;
    let mut broken: Option<&'static str> = None;
    let mut deck: Vec<&'static str> = Vec::new();
    let wait_done = |server: &Server, from_line: usize, want: usize, timeout: Duration| -> Vec<(Instant, bool)> {
        // collect `want` "done" lines that appear after line index `from_line`
        let t0 = Instant::now();
        loop {
            {
                let lines = server.lines.lock().unwrap();
                let done: Vec<(Instant, bool)> = lines[from_line.min(lines.len())..]
                    .iter()
                    .filter(|(_, l)| l.contains("done - "))
                    .map(|(t, l)| (*t, l.contains("done - success")))
                    .collect();
                if done.len() >= want {
                    return done;
                }
            }
            if t0.elapsed() > timeout {
                return Vec::new();
            }
            std::thread::sleep(Duration::from_millis(2));
        }
    };
    std::thread::sleep(Duration::from_millis(300));
    for step in 0..steps {
        if !server.alive() {
            break;
        }
        // 0. every eighth step: edit again while the reload is still running, then signal again.  The first load may see
        //    each file in either generation; once the last reload has reported, only the second edit may be visible.
        //    One of the two loads is made much shorter than the other (no bulk records), so that an implementation
        //    which lets loads overlap finishes them out of order.
        if broken.is_none() && step % 8 == 3 {
            let (g1, g2) = (g + 1, g + 2);
            let first_big = rng.chance(3, 4);
            write_generation(&dir, g1, has_extra, if first_big { &bulk } else { "" });
            let from_line = server.lines.lock().unwrap().len();
            let signal1 = Instant::now();
            server.sigusr1();
            let t0 = Instant::now();
            while !server.lines.lock().unwrap()[from_line..].iter().any(|(_, l)| l.contains("received")) && t0.elapsed() < Duration::from_secs(30) {
                std::thread::sleep(Duration::from_millis(1));
            }
            std::thread::sleep(Duration::from_millis(rng.range(0, 20) as u64));
            write_generation(&dir, g2, has_extra, if first_big { "" } else { &bulk });
            let signal2 = Instant::now();
            server.sigusr1();
            let done = wait_done(&server, from_line, 2, Duration::from_secs(60));
            sh.eval();
            sh.count("reload:edit-while-reloading", 1);
            sh.count("signals-sent", 2);
            sh.count("reloads-reported", done.len() as u64);
            if done.len() < 2 {
                sh.violation(
                    "C19:reload-never-reported",
                    format!("a SIGUSR1 sent after the previous one was reported as received did not lead to a second 'done' line within 60 s (step {step})"),
                    json!({"kind": "reload", "step": step, "action": "edit-while-reloading", "stderr": truncate(&server.stderr.lock().unwrap(), 500)}),
                );
                break;
            }
            for (_, ok) in &done {
                if !*ok {
                    sh.violation(
                        "C19:valid-configuration-failed-to-load".to_string(),
                        format!("step {step}: action edit-while-reloading, server reported failure"),
                        json!({"kind": "reload", "step": step, "action": "edit-while-reloading"}),
                    );
                }
            }
            let last_done = done.iter().map(|d| d.0).max().unwrap();
            {
                let mut ep = epochs.lock().unwrap();
                ep.push(Epoch { g: g1, has_extra, possible_from: signal1, certain_from: done[0].0, mix_with: Some(g2) });
                ep.push(Epoch { g: g2, has_extra, possible_from: signal2, certain_from: last_done, mix_with: None });
            }
            g = g2;
            reload_records.push(json!({"step": step, "action": "edit-while-reloading", "signals": 2, "reloads_reported": done.len(), "first_load_is_the_long_one": first_big,
                "took_ms": last_done.duration_since(signal1).as_millis() as u64, "success_expected": true}));
            std::thread::sleep(Duration::from_millis(rng.range(20, 80) as u64));
            continue;
        }
        // 1. edit (no reload is in progress now)
        // every kind of step comes up once per shuffled deck, so a short run still meets each fault
        if deck.is_empty() {
            deck = vec![
                "bad-file-in-directory",
                "dangling-symlink-in-directory",
                "explicit-file-removed",
                "bad-hosts-file-in-directory",
                "bad-explicit-hosts-file",
                "zones-directory-missing",
                "hosts-directory-missing",
                "no-change",
                "toggle-directory-file",
                "toggle-directory-file",
                "advance",
                "advance",
                "advance",
                "advance",
            ];
            rng.shuffle(&mut deck);
        }
        let action = match broken {
            Some(_) => "repair-and-advance",
            None => deck.pop().unwrap(),
        };
        let next_g = g + 1;
        let mut expect_success = true;
        match action {
            "advance" | "repair-and-advance" => {
                let _ = std::fs::rename(dir.join("zones.d.away"), dir.join("zones.d"));
                let _ = std::fs::rename(dir.join("hosts.d.away"), dir.join("hosts.d"));
                let _ = std::fs::remove_file(dir.join("zones.d/zz-broken.zone"));
                let _ = std::fs::remove_file(dir.join("hosts.d/zz-dangling"));
                let _ = std::fs::remove_file(dir.join("hosts.d/zz-broken"));
                broken = None;
                write_generation(&dir, next_g, has_extra, &bulk);
            }
            "toggle-directory-file" => {
                has_extra = !has_extra;
                write_generation(&dir, next_g, has_extra, &bulk);
            }
            "bad-file-in-directory" => {
                write_generation(&dir, next_g, has_extra, &bulk);
                write_atomic(&dir.join("zones.d/zz-broken.zone"), "this is ( not a zone file\n$INCLUDE nothing\n");
                broken = Some("bad-file");
                expect_success = false;
            }
            "dangling-symlink-in-directory" => {
                write_generation(&dir, next_g, has_extra, &bulk);
                let _ = std::os::unix::fs::symlink(dir.join("does-not-exist"), dir.join("hosts.d/zz-dangling"));
                broken = Some("dangling-symlink");
                expect_success = false;
            }
            "explicit-file-removed" => {
                write_generation(&dir, next_g, has_extra, &bulk);
                let _ = std::fs::remove_file(dir.join("a.test.zone"));
                broken = Some("explicit-file-removed");
                expect_success = false;
            }
            "bad-hosts-file-in-directory" => {
                write_generation(&dir, next_g, has_extra, &bulk);
                write_atomic(&dir.join("hosts.d/zz-broken"), "not-an-address some.host.test\n");
                broken = Some("bad-hosts-file");
                expect_success = false;
            }
            "bad-explicit-hosts-file" => {
                write_generation(&dir, next_g, has_extra, &bulk);
                write_atomic(&dir.join("hosts"), &format!("{} host.hosts.test\n10.1.2 short.address.test\n", ip_of(next_g, 3)));
                broken = Some("bad-explicit-hosts-file");
                expect_success = false;
            }
            "zones-directory-missing" => {
                write_generation(&dir, next_g, has_extra, &bulk);
                let _ = std::fs::rename(dir.join("zones.d"), dir.join("zones.d.away"));
                broken = Some("zones-directory-missing");
                expect_success = false;
            }
            "hosts-directory-missing" => {
                write_generation(&dir, next_g, has_extra, &bulk);
                let _ = std::fs::rename(dir.join("hosts.d"), dir.join("hosts.d.away"));
                broken = Some("hosts-directory-missing");
                expect_success = false;
            }
            _ => {}
        }
        let changes_generation = !matches!(action, "no-change") && expect_success;
        // 2. signal burst
        let from_line = server.lines.lock().unwrap().len();
        let burst = rng.range(1, 3);
        let signal_at = Instant::now();
        for b in 0..burst {
            server.sigusr1();
            if b + 1 < burst {
                std::thread::sleep(Duration::from_micros(rng.range(0, 3000) as u64));
            }
        }
        // signals may coalesce: at least one reload, at most `burst`
        let mut done = wait_done(&server, from_line, 1, Duration::from_secs(30));
        if done.is_empty() {
            sh.violation(
                "C19:reload-never-reported",
                format!("no 'done' line within 30 s of SIGUSR1 (step {step}, action {action})"),
                json!({"kind": "reload", "step": step, "action": action, "stderr": truncate(&server.stderr.lock().unwrap(), 500)}),
            );
            break;
        }
        // let a possible second/third reload of the burst finish before the next edit
        std::thread::sleep(Duration::from_millis(30));
        loop {
            let lines = server.lines.lock().unwrap();
            let rec = lines[from_line..].iter().filter(|(_, l)| l.contains("received")).count();
            let dn_ = lines[from_line..].iter().filter(|(_, l)| l.contains("done - ")).count();
            drop(lines);
            if dn_ >= rec {
                break;
            }
            std::thread::sleep(Duration::from_millis(5));
            if signal_at.elapsed() > Duration::from_secs(60) {
                break;
            }
        }
        done = wait_done(&server, from_line, 1, Duration::from_secs(1));
        sh.eval();
        sh.count(&format!("reload:{action}"), 1);
        sh.count("signals-sent", burst as u64);
        sh.count("reloads-reported", done.len() as u64);
        let first_done = done[0].0;
        for (_, ok) in &done {
            if *ok != expect_success {
                sh.violation(
                    if expect_success { "C19:valid-configuration-failed-to-load" } else { "C19:broken-configuration-reported-as-loaded" }.to_string(),
                    format!("step {step}: action {action}, server reported {}", if *ok { "success" } else { "failure" }),
                    json!({"kind": "reload", "step": step, "action": action}),
                );
            }
        }
        if changes_generation {
            g = next_g;
            epochs.lock().unwrap().push(Epoch {
                g,
                has_extra,
                possible_from: signal_at,
                certain_from: first_done,
                mix_with: None,
            });
        } else if action == "explicit-file-removed" {
            // files on disk moved on, the configuration in force must not
        }
        if !expect_success {
            // what is on disk is generation next_g (plus the fault); keep numbering monotonic
            g = next_g;
            // ... but the configuration in force is still the last epoch's
        }
        reload_records.push(json!({"step": step, "action": action, "signals": burst, "reloads_reported": done.len(), "took_ms": first_done.duration_since(signal_at).as_millis() as u64, "success_expected": expect_success}));
        // put the explicit file back for the next step (as part of the next edit)
        if action == "explicit-file-removed" {
            // repaired by the next step's write_generation
        }
        std::thread::sleep(Duration::from_millis(rng.range(5, 60) as u64));
    }
    std::thread::sleep(Duration::from_millis(200));
    stop.store(true, Ordering::Relaxed);
    for h in handles {
        let _ = h.join();
    }
    let alive = server.alive();
    if !alive {
        sh.violation(
            "C19:server-exited",
            format!("process exited: {:?}; stderr: {}", server.exit_status(), truncate(&server.stderr.lock().unwrap(), 400)),
            json!({"kind": "process"}),
        );
    }
    if let Some(p) = server.panicked() {
        sh.violation("C19:task-panicked", p, json!({"kind": "process"}));
    }

    // ---- judge the query log against the epochs
    let epochs = epochs.lock().unwrap().clone();
    let logs = logs.lock().unwrap().clone();
    let mut overlapping = 0u64;
    let mut after_reload = 0u64;
    for ql in &logs {
        sh.eval();
        // epochs that can have been in force at some instant of [sent, received]
        let mut allowed: Vec<&Epoch> = Vec::new();
        for (i, e) in epochs.iter().enumerate() {
            let ends = epochs.get(i + 1).map(|n| n.certain_from);
            let starts_ok = e.possible_from <= ql.received;
            let ends_ok = ends.is_none_or(|t| t >= ql.sent);
            if starts_ok && ends_ok {
                allowed.push(e);
            }
        }
        if allowed.len() > 1 {
            overlapping += 1;
        } else if epochs.len() > 1 && allowed.first().is_some_and(|e| e.g != epochs[0].g) {
            after_reload += 1;
        }
        let ok = match &ql.seen {
            Seen::Gen(x) => allowed.iter().any(|e| (e.g == *x || e.mix_with == Some(*x)) && (ql.probe != 6 || e.has_extra)),
            Seen::Absent => allowed.iter().any(|e| !e.has_extra),
            // files of two generations on disk while the configuration was read: the harness's own mixture
            Seen::Mixed(_) => allowed.iter().any(|e| e.mix_with.is_some()),
            Seen::Other(_) => false,
        };
        if allowed.len() > 1 || after_reload > 0 {
            // distinct = (probe, generation seen, candidate generations, 5 ms slot of the send time, transport)
            let mut h = fnv_mix(fnv_mix(ql.probe as u64, allowed.len() as u64), match &ql.seen { Seen::Gen(x) => u64::from(*x), _ => 0 });
            h = fnv_mix(h, allowed.first().map_or(0, |e| u64::from(e.g)));
            h = fnv_mix(h, ql.sent.duration_since(start).as_millis() as u64 / 5);
            sh.nontrivial(fnv_mix(h, ql.tcp as u64));
        }
        if !ok {
            let (sig, what) = match &ql.seen {
                Seen::Mixed(m) => ("C19:answer-mixes-generations".to_string(), m.clone()),
                Seen::Gen(x) => {
                    let newest = allowed.iter().map(|e| e.g).max().unwrap_or(0);
                    if *x < newest {
                        ("C19:stale-answer-after-reload-completed".to_string(), format!("answer of generation {x}, but only {:?} can have been in force", allowed.iter().map(|e| e.g).collect::<Vec<_>>()))
                    } else {
                        ("C19:answer-from-configuration-never-in-force".to_string(), format!("answer of generation {x}, but only {:?} can have been in force (a failed reload must change nothing)", allowed.iter().map(|e| e.g).collect::<Vec<_>>()))
                    }
                }
                Seen::Absent => ("C19:zone-of-added-file-missing-after-reload".to_string(), "extra zone not served although every possible generation has it".to_string()),
                Seen::Other(o) => ("C19:unexpected-answer".to_string(), o.clone()),
            };
            sh.violation(
                sig,
                format!("probe {} ({}): {what}", show_name(&pr[ql.probe].0), if ql.tcp { "tcp" } else { "udp" }),
                json!({"kind": "query", "probe": show_name(&pr[ql.probe].0), "seen": format!("{:?}", ql.seen),
                       "sent_ms": ql.sent.duration_since(start).as_millis() as u64, "received_ms": ql.received.duration_since(start).as_millis() as u64,
                       "epochs": epochs.iter().map(|e| json!({"g": e.g, "has_extra": e.has_extra, "possible_from_ms": e.possible_from.duration_since(start).as_millis() as u64, "certain_from_ms": e.certain_from.duration_since(start).as_millis() as u64})).collect::<Vec<_>>()}),
            );
        }
    }
    // ---- "keeps answering throughout", as bounded progress: during reloads that take >= 100 ms (between the server's
    // own 'received' and 'done' lines as seen here) some query sent inside the window is also answered inside it,
    // 20 ms before its end at the latest.  Judged over all long reloads together: a loaded machine may starve one window.
    {
        let lines = server.lines.lock().unwrap().clone();
        let mut windows: Vec<(Instant, Instant)> = Vec::new();
        let mut open: Option<Instant> = None;
        for (t, l) in &lines {
            if l.contains("received") {
                open.get_or_insert(*t);
            } else if l.contains("done - ") {
                if let Some(t0) = open.take() {
                    windows.push((t0, *t));
                }
            }
        }
        let mut by_sent: Vec<(Instant, Instant)> = logs.iter().map(|q| (q.sent, q.received)).collect();
        by_sent.sort();
        let margin = Duration::from_millis(20);
        let (mut long, mut long_with_answers, mut answered_inside, mut sent_inside) = (0u64, 0u64, 0u64, 0u64);
        for (t0, t1) in &windows {
            if t1.duration_since(*t0) < Duration::from_millis(100) {
                continue;
            }
            long += 1;
            let from = by_sent.partition_point(|q| q.0 < *t0);
            let to = by_sent.partition_point(|q| q.0 < *t1 - margin);
            let inside = by_sent[from..to].iter().filter(|q| q.1 <= *t1 - margin).count() as u64;
            sent_inside += (to - from) as u64;
            answered_inside += inside;
            if inside > 0 {
                long_with_answers += 1;
            }
        }
        sh.count("reloads-of-100ms-or-more", long);
        sh.count("reloads-of-100ms-or-more-with-a-query-answered-inside", long_with_answers);
        sh.count("queries-sent-and-answered-inside-a-long-reload", answered_inside);
        if long >= 3 && answered_inside == 0 && alive {
            sh.violation(
                "C19:no-query-answered-while-a-reload-was-running",
                format!("{long} reloads took 100 ms or more; {sent_inside} queries were sent during them and not one was answered before the reload was over"),
                json!({"kind": "progress", "long_reloads": long, "queries_sent_inside": sent_inside}),
            );
        }
    }
    let lost = lost.lock().unwrap();
    if !lost.is_empty() {
        sh.violation("C19:query-never-answered", format!("{} queries got no reply in 3 transmissions, e.g. {}", lost.len(), lost[0]), json!({"kind": "lost", "examples": lost.iter().take(5).collect::<Vec<_>>()}));
    }
    sh.count("queries", logs.len() as u64);
    sh.count("queries-overlapping-a-reload", overlapping);
    sh.count("queries-after-a-completed-reload", after_reload);
    sh.count("generations-in-force", epochs.len() as u64);
    sh.sample(json!({"reloads": reload_records.iter().take(12).collect::<Vec<_>>(), "queries": logs.len(), "overlapping_queries_observed": overlapping}));
    let mut counts: BTreeMap<String, u64> = BTreeMap::new();
    for ql in &logs {
        *counts.entry(format!("{:?}", std::mem::discriminant(&ql.seen))).or_insert(0) += 1;
    }
    run.set_extra("overlapping_queries_observed", json!(overlapping));
    run.set_extra("reload_steps", json!(reload_records.len()));
    run.merge(sh);
    drop(server);
    let _ = std::fs::remove_dir_all(&dir);
    run.finish(50);
}

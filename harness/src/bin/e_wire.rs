//! Engine E1: wire codec.  Serves C03 (decoder crash-free / bounded / exact),
//! C04 (encode-decode round trip, pointer audit), C16 (name well-formedness).

use dns_types::protocol::types::*;
use serde_json::{json, Value};
use std::collections::hash_map::DefaultHasher;
use std::hash::{Hash, Hasher};
use std::time::Duration;

use verif_harness::crash::{supervise, TraceHub, Tracer};
use verif_harness::genmsg::*;
use verif_harness::names::*;
use verif_harness::refmodel::wire as refw;
use verif_harness::refmodel::zone::is_suffix;
use verif_harness::rng::{fnv, fnv_mix, Rng};
use verif_harness::run::{catch, hex, quiet_panics, unhex, Args, Run, Shard};

const THREADS: usize = 16;
/// tokio's default worker-thread stack, which is what `resolved` decodes on
const STACK: usize = 2 * 1024 * 1024;

fn main() {
    let args = Args::parse();
    if let Some(path) = args.replay.clone() {
        replay(&args, &path);
        return;
    }
    match args.prop.as_str() {
        "C03" => {
            if !args.worker {
                supervise(&args, "exploration", Duration::from_secs(args.tier.pick(900, 7200)), true);
            }
            c03(args);
        }
        "C04" => {
            if !args.worker {
                supervise(&args, "exploration", Duration::from_secs(args.tier.pick(900, 7200)), false);
            }
            c04(args);
        }
        "C16" => c16(args),
        other => {
            eprintln!("e_wire does not serve {other}");
            std::process::exit(2);
        }
    }
}

// ---------------------------------------------------------------------------
// C03

/// One decoder case.  Returns whether the input was "non-trivial" (reached a name decode).
fn c03_case(bytes: &[u8], class: &str, sh: &mut Shard, tr: &mut Tracer) {
    sh.eval();
    tr.begin(|| json!({"class": class, "hex": hex(bytes)}));
    let res = catch(|| Message::from_octets(bytes));
    tr.end();
    let replay = || json!({"kind": "decode", "class": class, "hex": hex(bytes)});
    let res = match res {
        Ok(r) => r,
        Err(msg) => {
            sh.violation(
                format!("C03:decoder-panic:{}", first_words(&msg)),
                format!("Message::from_octets panicked: {msg}"),
                replay(),
            );
            return;
        }
    };
    let mut trace = refw::Trace::default();
    let reference = refw::decode_with(bytes, &mut trace);
    if trace.steps > 0 {
        sh.nontrivial(fnv(bytes));
    }
    sh.count_max("max:pointer_hops_in_one_name", trace.max_hops as u64);
    match (&res, &reference) {
        (Ok(m), Ok(r)) => {
            sh.count("accepted", 1);
            let got = refw::rmsg_of(m);
            if let Some(d) = refw::diff(&got, r) {
                sh.violation(
                    format!("C03:decoded-value-differs:{}", d.split(':').next().unwrap_or("")),
                    format!("decoder and reference decoder accept but disagree: {d}"),
                    replay(),
                );
            }
            if let Some(p) = message_name_problem(m) {
                sh.violation(
                    "C16:malformed-name-from-wire",
                    format!("decoded message holds a malformed name: {p}"),
                    replay(),
                );
            }
        }
        (Err(e), Err(r)) => {
            sh.count("rejected", 1);
            sh.count(&format!("reject:{r:?}"), 1);
            let want = if bytes.len() >= 2 {
                Some(u16::from_be_bytes([bytes[0], bytes[1]]))
            } else {
                None
            };
            if e.id() != want {
                sh.violation(
                    "C03:error-without-sender-id",
                    format!("error {e:?} carries id {:?}, expected {want:?}", e.id()),
                    replay(),
                );
            }
        }
        (Ok(_), Err(r)) => {
            sh.violation(
                format!("C03:accepts-malformed:{r:?}"),
                format!("decoder accepts a message the reference rejects with {r:?}"),
                replay(),
            );
        }
        (Err(e), Ok(_)) => {
            sh.violation(
                format!("C03:rejects-wellformed:{}", variant_name(&format!("{e:?}"))),
                format!("decoder rejects ({e:?}) a message the reference accepts"),
                replay(),
            );
        }
    }
}

fn variant_name(s: &str) -> String {
    s.split(|c: char| !c.is_ascii_alphanumeric()).next().unwrap_or("").to_string()
}

fn first_words(s: &str) -> String {
    s.split_whitespace().take(6).collect::<Vec<_>>().join("_")
}

fn header(id: u16, flags: u16, qd: u16, an: u16, ns: u16, ar: u16) -> Vec<u8> {
    let mut v = Vec::with_capacity(12);
    v.extend_from_slice(&id.to_be_bytes());
    v.extend_from_slice(&flags.to_be_bytes());
    for c in [qd, an, ns, ar] {
        v.extend_from_slice(&c.to_be_bytes());
    }
    v
}

/// header + question(root, A, IN) + one TXT record (owner root) with the given RDATA; returns
/// the message and the offset at which the RDATA starts.
fn with_txt_blob(blob: &[u8], extra_an: u16) -> (Vec<u8>, usize) {
    let mut m = header(0x1234, 0x8000, 1, 1 + extra_an, 0, 0);
    m.extend_from_slice(&[0, 0, 1, 0, 1]); // root A IN
    m.extend_from_slice(&[0, 0, 16, 0, 1, 0, 0, 0, 60]); // root TXT IN ttl
    m.extend_from_slice(&(blob.len() as u16).to_be_bytes());
    let off = m.len();
    m.extend_from_slice(blob);
    (m, off)
}

fn rr_with_owner(owner: &[u8]) -> Vec<u8> {
    let mut v = owner.to_vec();
    v.extend_from_slice(&[0, 1, 0, 1, 0, 0, 0, 60, 0, 4, 10, 0, 0, 1]); // A IN ttl rdlen 10.0.0.1
    v
}

/// A backward pointer chain of `depth` pointers inside a TXT blob, ending at a root
/// label, optionally with a 1-octet label before each pointer (`labelled`), then a record
/// whose owner points at the last element.
fn chain_message(depth: usize, labelled: bool) -> Vec<u8> {
    let base = 12 + 5 + 11; // header + question + TXT fixed part → RDATA offset
    let mut blob = vec![0u8]; // root label at offset `base`
    let mut prev = base;
    for _ in 0..depth {
        let here = base + blob.len();
        if labelled {
            blob.extend_from_slice(&[1, b'x']);
        }
        blob.push(0xC0 | ((prev >> 8) as u8));
        blob.push((prev & 0xff) as u8);
        prev = here;
        if base + blob.len() + 4 > 0x3fff {
            break;
        }
    }
    let (mut m, off) = with_txt_blob(&blob, 1);
    debug_assert_eq!(off, base);
    let owner = [0xC0 | ((prev >> 8) as u8), (prev & 0xff) as u8];
    m.extend_from_slice(&rr_with_owner(&owner));
    m
}

fn adversarial_inputs() -> Vec<(String, Vec<u8>)> {
    let mut v: Vec<(String, Vec<u8>)> = Vec::new();
    // maximal backward chain (the 14-bit offset space bounds the depth) and shorter ones
    for depth in [1usize, 2, 3, 10, 100, 1000, 4000, 8000, 9000] {
        v.push((format!("chain:{depth}"), chain_message(depth, false)));
    }
    for depth in [1usize, 2, 60, 126, 127, 128, 129, 200] {
        v.push((format!("labelled-chain:{depth}"), chain_message(depth, true)));
    }
    // self pointer, forward pointer, pointer to own start, 2-cycle, n-cycle (as question names)
    for (name, qname) in [
        ("self-pointer", vec![0xC0u8, 12]),
        ("forward-pointer", vec![0xC0, 40]),
        ("pointer-past-end", vec![0xFF, 0xFF]),
        ("pointer-into-own-name", vec![1, b'a', 0xC0, 12]),
        ("pointer-to-own-second-label", vec![1, b'a', 1, b'b', 0xC0, 14]),
        ("pointer-into-header-0", vec![0xC0, 0]),
        ("pointer-into-header-2", vec![0xC0, 2]),
        ("pointer-into-header-11", vec![0xC0, 11]),
        ("label-then-pointer-into-header", vec![3, b'w', b'w', b'w', 0xC0, 4]),
        ("reserved-label-type-01", vec![0x40, b'a', 0]),
        ("reserved-label-type-10", vec![0x80, b'a', 0]),
        ("reserved-label-type-10-max", vec![0xBF, 0]),
        ("truncated-pointer", vec![0xC0]),
    ] {
        for hdr_variant in 0..3u16 {
            // header bytes are pointer targets: vary them so that they decode as names or not
            let mut m = header([0x0000, 0x0161, 0x3F3F][hdr_variant as usize], [0x0100, 0x0000, 0x0062][hdr_variant as usize], 1, 0, 0, 0);
            m.extend_from_slice(&qname);
            m.extend_from_slice(&[0, 1, 0, 1]);
            v.push((format!("{name}:{hdr_variant}"), m));
        }
    }
    // two names pointing at each other (2-cycle) and a 3-cycle, inside a blob
    {
        let base = 28;
        let mut blob = Vec::new();
        let p = |o: usize| [0xC0 | ((o >> 8) as u8), (o & 0xff) as u8];
        blob.extend_from_slice(&p(base + 2)); // at base: → base+2 (forward)
        blob.extend_from_slice(&p(base)); // at base+2: → base
        blob.extend_from_slice(&p(base + 2)); // at base+4: → base+2
        let (mut m, _) = with_txt_blob(&blob, 1);
        m.extend_from_slice(&rr_with_owner(&p(base + 4)));
        v.push(("cycle-via-blob".into(), m));
    }
    // counts far larger than the payload
    for (qd, an, ns, ar) in [
        (65535u16, 0u16, 0u16, 0u16),
        (0, 65535, 0, 0),
        (0, 0, 65535, 0),
        (0, 0, 0, 65535),
        (65535, 65535, 65535, 65535),
        (1, 65535, 0, 0),
    ] {
        let mut m = header(7, 0, qd, an, ns, ar);
        v.push((format!("counts:{qd}/{an}/{ns}/{ar}:bare"), m.clone()));
        m.extend_from_slice(&[0, 0, 1, 0, 1]);
        v.push((format!("counts:{qd}/{an}/{ns}/{ar}:one-question"), m.clone()));
        m.extend_from_slice(&[0u8; 12]);
        v.push((format!("counts:{qd}/{an}/{ns}/{ar}:zeros"), m));
    }
    // 65535 tiny questions, and 65535/5 question message exactly filling 64 KiB
    {
        let n = 13104u16; // 12 + 13104*5 = 65532
        let mut m = header(9, 0, n, 0, 0, 0);
        for _ in 0..n {
            m.extend_from_slice(&[0, 0, 1, 0, 1]);
        }
        v.push(("many-questions:13104".into(), m.clone()));
        m[4] = 0xff;
        m[5] = 0xff;
        v.push(("many-questions:count-65535-but-13104-present".into(), m));
    }
    // names of exactly 255 and 256 octets, labels of 63 and 64
    for total_extra in [0usize, 1] {
        let mut q = Vec::new();
        for len in [63usize, 63, 63, 61 + total_extra] {
            q.push(len as u8);
            q.extend(std::iter::repeat(b'a').take(len));
        }
        q.push(0);
        let mut m = header(1, 0, 1, 0, 0, 0);
        m.extend_from_slice(&q);
        m.extend_from_slice(&[0, 1, 0, 1]);
        v.push((format!("name-len:{}", 255 + total_extra), m));
    }
    // 255-octet name reached through a pointer after k labels (total would exceed / just fit)
    for k in [0usize, 1, 2, 3] {
        let mut blob = Vec::new();
        for len in [63usize, 63, 63, 61] {
            blob.push(len as u8);
            blob.extend(std::iter::repeat(b'b').take(len));
        }
        blob.push(0);
        let (mut m, off) = with_txt_blob(&blob, 1);
        let mut owner = Vec::new();
        for _ in 0..k {
            owner.extend_from_slice(&[1, b'z']);
        }
        // point at the second label if k>0 so that some fit: 255 - 64 + 2k
        let target = if k == 0 { off } else { off + 64 };
        owner.push(0xC0 | ((target >> 8) as u8));
        owner.push((target & 0xff) as u8);
        m.extend_from_slice(&rr_with_owner(&owner));
        v.push((format!("long-name-via-pointer:{k}"), m));
    }
    // RDLENGTH off by ±1 (and 0, and +100) for every type with structured RDATA
    {
        let name = [1u8, b'n', 0];
        let rdatas: Vec<(u16, Vec<u8>)> = vec![
            (1, vec![1, 2, 3, 4]),
            (28, vec![0; 16]),
            (2, name.to_vec()),
            (5, name.to_vec()),
            (12, name.to_vec()),
            (6, [&name[..], &name[..], &[0u8; 20][..]].concat()),
            (14, [&name[..], &name[..]].concat()),
            (15, [&[0u8, 5][..], &name[..]].concat()),
            (33, [&[0u8, 1, 0, 2, 0, 3][..], &name[..]].concat()),
            (16, vec![3, b'a', b'b', b'c']),
            (10, vec![]),
            (99, vec![1, 2, 3]),
        ];
        for (t, rd) in rdatas {
            for delta in [-1i32, 0, 1, 100] {
                let len = rd.len() as i32 + delta;
                if len < 0 {
                    continue;
                }
                let mut m = header(3, 0x8400, 0, 1, 0, 0);
                m.extend_from_slice(&name);
                m.extend_from_slice(&t.to_be_bytes());
                m.extend_from_slice(&[0, 1, 0, 0, 0, 9]);
                m.extend_from_slice(&(len as u16).to_be_bytes());
                m.extend_from_slice(&rd);
                v.push((format!("rdlength:type{t}:{delta:+}"), m.clone()));
                m.extend_from_slice(&[0u8; 8]); // the same with slack after the record
                v.push((format!("rdlength:type{t}:{delta:+}:slack"), m));
            }
        }
    }
    // compressed name inside RDATA pointing into the RDATA's own record / forward
    {
        let mut m = header(3, 0x8400, 0, 1, 0, 0);
        m.extend_from_slice(&[1, b'o', 0]); // owner at 12
        m.extend_from_slice(&[0, 5, 0, 1, 0, 0, 0, 9, 0, 2, 0xC0, 12]); // CNAME → pointer to owner
        v.push(("rdata-pointer-to-owner".into(), m.clone()));
        let l = m.len();
        m[l - 1] = 25; // pointer to its own offset (12+3+10 = 25)
        v.push(("rdata-pointer-to-itself".into(), m));
    }
    v
}

/// Valid messages used as the base of the truncation / mutation corpus.
fn small_valid_corpus(rng: &mut Rng, n: usize) -> Vec<Vec<u8>> {
    let mut out = Vec::new();
    let mut tries = 0;
    while out.len() < n && tries < n * 20 {
        tries += 1;
        let m = gen_message(rng, 3, 24);
        if let Ok(b) = m.to_octets() {
            if b.len() <= 300 {
                out.push(b.to_vec());
            }
        }
    }
    out
}

/// A message assembled field by field from the grammar, where every field is
/// occasionally malformed: names with pointers to arbitrary earlier (or later) offsets,
/// label lengths off by one, reserved label types, RDLENGTH != RDATA, counts != entries.
fn gen_semi_valid(rng: &mut Rng) -> Vec<u8> {
    fn name(rng: &mut Rng, out: &mut Vec<u8>, starts: &mut Vec<usize>) {
        let here = out.len();
        let n = match rng.below(12) {
            0 => 0,
            1 => rng.range(4, 12),
            _ => rng.range(1, 3),
        };
        for _ in 0..n {
            let len = match rng.below(30) {
                0 => 63,
                1 => rng.range(40, 63),
                _ => rng.range(1, 6),
            };
            let written = match rng.below(60) {
                0 => len + 1,
                1 => len.saturating_sub(1),
                2 => 64 + rng.below(128),
                _ => len,
            };
            out.push(written as u8);
            for _ in 0..len {
                out.push(b'a' + rng.below(26) as u8);
            }
        }
        match rng.below(10) {
            0..=4 => out.push(0),
            5..=8 if !starts.is_empty() => {
                // pointer: mostly to the start of an earlier name, sometimes anywhere
                let t = match rng.below(12) {
                    0 => rng.below(out.len() + 8),
                    1 => here,
                    2 => rng.below(12),
                    _ => {
                        let s = *rng.pick(&starts[..]);
                        if rng.chance(1, 6) { s + 1 } else { s }
                    }
                };
                out.push(0xC0 | ((t >> 8) as u8 & 0x3f));
                out.push(t as u8);
            }
            _ => out.push(0),
        }
        starts.push(here);
    }
    let mut starts = Vec::new();
    let qd = if rng.chance(1, 8) { rng.below(3) } else { 1 };
    let counts = [rng.below(4), rng.below(3), rng.below(3)];
    let mut out = rng.bytes(4);
    let mut written_counts = [qd, counts[0], counts[1], counts[2]];
    if rng.chance(1, 40) {
        let i = rng.below(4);
        written_counts[i] = match rng.below(3) {
            0 => written_counts[i] + 1,
            1 => written_counts[i].saturating_sub(1),
            _ => 65535,
        };
    }
    for c in written_counts {
        out.extend_from_slice(&(c as u16).to_be_bytes());
    }
    for _ in 0..qd {
        name(rng, &mut out, &mut starts);
        out.extend_from_slice(&gen_rtype_number(rng).to_be_bytes());
        out.extend_from_slice(&[0, 1]);
    }
    for n in counts {
        for _ in 0..n {
            name(rng, &mut out, &mut starts);
            let t = gen_rtype_number(rng);
            out.extend_from_slice(&t.to_be_bytes());
            out.extend_from_slice(&[0, 1]);
            out.extend_from_slice(&rng.next_u32().to_be_bytes());
            let len_at = out.len();
            out.extend_from_slice(&[0, 0]);
            let rd_start = out.len();
            match t {
                1 => out.extend_from_slice(&rng.bytes(4)),
                28 => out.extend_from_slice(&rng.bytes(16)),
                2 | 3 | 4 | 5 | 7 | 8 | 9 | 12 => name(rng, &mut out, &mut starts),
                6 => {
                    name(rng, &mut out, &mut starts);
                    name(rng, &mut out, &mut starts);
                    out.extend_from_slice(&rng.bytes(20));
                }
                14 => {
                    name(rng, &mut out, &mut starts);
                    name(rng, &mut out, &mut starts);
                }
                15 => {
                    out.extend_from_slice(&rng.bytes(2));
                    name(rng, &mut out, &mut starts);
                }
                33 => {
                    out.extend_from_slice(&rng.bytes(6));
                    name(rng, &mut out, &mut starts);
                }
                _ => {
                    let l = rng.below(20);
                    out.extend_from_slice(&rng.bytes(l));
                }
            }
            let mut rdlen = out.len() - rd_start;
            if rng.chance(1, 40) {
                rdlen = match rng.below(3) {
                    0 => rdlen + 1,
                    1 => rdlen.saturating_sub(1),
                    _ => rng.below(70000),
                };
            }
            let rdlen = rdlen.min(65535) as u16;
            out[len_at] = (rdlen >> 8) as u8;
            out[len_at + 1] = rdlen as u8;
        }
    }
    if rng.chance(1, 30) {
        let cut = rng.below(out.len() + 1);
        out.truncate(cut);
    } else if rng.chance(1, 30) {
        let l = rng.below(9);
        out.extend_from_slice(&rng.bytes(l));
    }
    out
}

fn c03(args: Args) {
    quiet_panics();
    let run = Run::new(
        args.clone(),
        "exploration",
        "inputs: semi-valid messages assembled field by field with occasional faults (pointers to arbitrary offsets, \
         label lengths off by one, reserved label types, RDLENGTH/count mismatches), random bytes (plain and with \
         small section counts), encodings of generated valid messages, \
         every truncation and every single-byte substitution (8 values per position) of a corpus of valid \
         messages <= 300 B, and a fixed adversarial set (pointer chains up to the 14-bit maximum, loops, \
         self/forward pointers, pointers into the header, reserved label types, huge counts, RDLENGTH +-1, \
         255/256-octet names). non-trivial = the reference decoder read at least one name field; distinct = \
         distinct byte strings (FNV-1a of the input).",
    );
    let hub = TraceHub::new(&args, THREADS);
    hub.start_hang_monitor(Duration::from_secs(60));
    let n_random = args.size(4_000_000, 300_000_000);
    let n_valid = args.size(150_000, 5_000_000);
    let corpus_n = args.size(600, 6000) as usize;
    let seed = args.seed;

    // fixed adversarial set + mutation corpus are split round-robin over the threads
    let adv = adversarial_inputs();
    let mut crng = Rng::new(seed).fork(0xC03C);
    let corpus = small_valid_corpus(&mut crng, corpus_n);
    run.set_extra("adversarial_inputs", json!(adv.len()));
    run.set_extra("mutation_corpus_messages", json!(corpus.len()));
    run.set_extra("decode_thread_stack_bytes", json!(STACK));

    run.parallel(THREADS, STACK, |ti, sh| {
        let mut tr = hub.tracer(ti);
        let mut rng = Rng::new(seed).fork(0x0300 + ti as u64);

        // (4) adversarial
        for (i, (name, bytes)) in adv.iter().enumerate() {
            if i % THREADS == ti {
                c03_case(bytes, name, sh, &mut tr);
                sh.count("class:adversarial", 1);
                if name.starts_with("chain:8000") {
                    sh.sample(json!({"class": name, "len": bytes.len(), "head_hex": hex(&bytes[..48])}));
                }
            }
        }
        // (3) truncations and single-byte substitutions
        for (i, msg) in corpus.iter().enumerate() {
            if i % THREADS != ti {
                continue;
            }
            for cut in 0..msg.len() {
                c03_case(&msg[..cut], "truncation", sh, &mut tr);
                sh.count("class:truncation", 1);
            }
            let mut m = msg.clone();
            for pos in 0..m.len() {
                let orig = m[pos];
                let repl = [
                    0u8,
                    0xC0,
                    0xFF,
                    0x3F,
                    0x40,
                    orig.wrapping_add(1),
                    orig.wrapping_sub(1),
                    rng.next_u32() as u8,
                ];
                for r in repl {
                    if r == orig {
                        continue;
                    }
                    m[pos] = r;
                    c03_case(&m, "substitution", sh, &mut tr);
                    sh.count("class:substitution", 1);
                }
                m[pos] = orig;
            }
            if sh.want_sample() && i < THREADS {
                sh.sample(json!({"class": "mutation-base", "hex": hex(msg)}));
            }
        }
        // (2) valid messages
        for _ in 0..(n_valid / THREADS as u64) {
            let m = if rng.chance(1, 200) {
                gen_large_message(&mut rng)
            } else {
                gen_message(&mut rng, 4, 40)
            };
            if let Ok(b) = m.to_octets() {
                if b.len() <= 65535 {
                    c03_case(&b, "valid", sh, &mut tr);
                    sh.count("class:valid", 1);
                }
            }
        }
        // (1a) semi-valid: assembled field by field, each field occasionally wrong
        for k in 0..(n_random / 2 / THREADS as u64) {
            let b = gen_semi_valid(&mut rng);
            c03_case(&b, "semi-valid", sh, &mut tr);
            sh.count("class:semi-valid", 1);
            if sh.want_sample() && k == 11 {
                sh.sample(json!({"class": "semi-valid", "hex": hex(&b)}));
            }
        }
        // (1b) random bytes
        for k in 0..(n_random / 2 / THREADS as u64) {
            let len = match rng.below(100) {
                0 => rng.below(12),
                1 => rng.range(600, 65535),
                2..=40 => rng.range(12, 60),
                _ => rng.range(12, 600),
            };
            let mut b = rng.bytes(len);
            let class = if k % 16 != 0 && len >= 12 {
                // small counts so that the parse goes deep instead of dying on the first record
                b[4] = 0;
                b[5] = rng.below(3) as u8;
                b[6] = 0;
                b[7] = rng.below(3) as u8;
                b[8] = 0;
                b[9] = rng.below(2) as u8;
                b[10] = 0;
                b[11] = rng.below(2) as u8;
                // bias label-length octets towards small values
                for i in 12..b.len() {
                    if rng.chance(1, 3) {
                        b[i] &= 0x07;
                    } else if rng.chance(1, 10) {
                        b[i] = 0xC0;
                    }
                }
                "random-shaped"
            } else {
                "random"
            };
            c03_case(&b, class, sh, &mut tr);
            sh.count(&format!("class:{class}"), 1);
            if sh.want_sample() && k == 7 {
                sh.sample(json!({"class": class, "hex": hex(&b)}));
            }
        }
    });
    run.finish(1000);
}

// ---------------------------------------------------------------------------
// C04

fn pointer_audit(bytes: &[u8], trace: &refw::Trace) -> Option<String> {
    for (i, nt) in trace.names.iter().enumerate() {
        for (k, (at, target)) in nt.pointers.iter().enumerate() {
            if *target >= 0x4000 {
                return Some(format!("pointer at {at} targets {target} (>= 16384)"));
            }
            // the target must be the start of a name field read earlier, and that name must
            // be identical to what remains of this name from the pointer on
            let earlier = trace.names[..i].iter().find(|e| e.start == *target);
            let Some(e) = earlier else {
                return Some(format!(
                    "pointer at offset {at} targets {target}, which is not the start of any earlier name (message is {} bytes)",
                    bytes.len()
                ));
            };
            // labels of this name consumed before the k-th pointer: count labels physically
            // present between field start and the pointer — since the encoder under test only
            // ever compresses whole names we simply require suffix equality
            let _ = k;
            let n = &nt.name.0;
            let en = &e.name.0;
            if en.len() > n.len() || n[n.len() - en.len()..] != en[..] {
                return Some(format!(
                    "pointer at offset {at} targets the name at {target}, which is not a suffix of the name being written"
                ));
            }
        }
    }
    None
}

fn msg_summary(m: &Message, len: usize) -> Value {
    json!({
        "encoded_len": len,
        "questions": m.questions.len(),
        "answers": m.answers.len(),
        "authority": m.authority.len(),
        "additional": m.additional.len(),
        "first_question": m.questions.first().map(question_json),
        "first_records": rrs_json(&m.answers.iter().take(2).cloned().map(|mut r| { if let RecordTypeWithData::TXT{octets} | RecordTypeWithData::NULL{octets} = &r.rtype_with_data { if octets.len() > 32 { r.rtype_with_data = RecordTypeWithData::TXT{octets: octets.slice(..32)}; } } r }).collect::<Vec<_>>()),
    })
}

fn c04_message_case(m: &Message, class: &str, sh: &mut Shard, tr: &mut Tracer) {
    sh.eval();
    tr.begin(|| json!({"class": class, "message_debug": format!("{:?}", m.header)}));
    let enc = catch(|| m.to_octets());
    tr.end();
    let bytes = match enc {
        Ok(Ok(b)) => b.to_vec(),
        Ok(Err(e)) => {
            sh.count("encoder-refused", 1);
            // only legitimate when a count or an RDATA does not fit 16 bits
            let legit = m.questions.len() > 65535
                || m.answers.len() > 65535
                || m.authority.len() > 65535
                || m.additional.len() > 65535;
            if !legit {
                sh.violation(
                    "C04:encoder-refuses-wellformed",
                    format!("to_octets failed with {e:?} on a message within all limits"),
                    json!({"kind": "message-debug", "class": class, "debug": format!("{m:?}")}),
                );
            }
            return;
        }
        Err(msg) => {
            sh.violation(
                format!("C04:encoder-panic:{}", first_words(&msg)),
                format!("to_octets panicked: {msg}"),
                json!({"kind": "message-debug", "class": class, "debug": format!("{m:?}")}),
            );
            return;
        }
    };
    if bytes.len() > 65535 {
        sh.count("oversize-skipped", 1);
        return; // beyond the TCP maximum: outside the claim
    }
    let replay = || json!({"kind": "roundtrip", "class": class, "hex": hex(&bytes), "summary": msg_summary(m, bytes.len())});
    let h = fnv(&bytes);
    let nontrivial = !m.answers.is_empty() || !m.authority.is_empty() || !m.additional.is_empty() || !m.questions.is_empty();
    if nontrivial {
        sh.nontrivial(h);
    }
    if bytes.len() > 16384 {
        sh.count("encoded_len>16384", 1);
    }
    if bytes.len() > 512 {
        sh.count("encoded_len>512", 1);
    }
    // own decoder
    match catch(|| Message::from_octets(&bytes)) {
        Ok(Ok(back)) => {
            if &back != m {
                let d = refw::diff(&refw::rmsg_of(&back), &refw::rmsg_of(m)).unwrap_or_else(|| "values differ".into());
                sh.violation(
                    format!("C04:roundtrip-differs:{}", if bytes.len() > 16384 { "beyond-16k" } else { "below-16k" }),
                    format!("from_octets(to_octets(m)) != m: {d}"),
                    replay(),
                );
                return;
            }
        }
        Ok(Err(e)) => {
            sh.violation(
                format!("C04:own-encoding-rejected:{}:{}", variant_name(&format!("{e:?}")), if bytes.len() > 16384 { "beyond-16k" } else { "below-16k" }),
                format!("from_octets rejects the encoder's output with {e:?} ({} bytes)", bytes.len()),
                replay(),
            );
            return;
        }
        Err(msg) => {
            sh.violation("C04:decoder-panic-on-own-encoding", msg, replay());
            return;
        }
    }
    // independent decoder + pointer audit
    match refw::decode(&bytes) {
        Ok((r, trace)) => {
            let want = refw::rmsg_of(m);
            if let Some(d) = refw::diff(&r, &want) {
                sh.violation(
                    "C04:reference-decoder-reads-differently",
                    format!("independent decoder reads the encoding differently: {d}"),
                    replay(),
                );
            }
            if trace.consumed != bytes.len() {
                sh.violation(
                    "C04:trailing-bytes-in-encoding",
                    format!("encoding is {} bytes but the message ends at {}", bytes.len(), trace.consumed),
                    replay(),
                );
            }
            let np: usize = trace.names.iter().map(|n| n.pointers.len()).sum();
            sh.count("pointers_audited", np as u64);
            if let Some(p) = pointer_audit(&bytes, &trace) {
                sh.violation(
                    format!("C04:bad-compression-pointer:{}", if bytes.len() > 16384 { "beyond-16k" } else { "below-16k" }),
                    p,
                    replay(),
                );
            }
        }
        Err(e) => {
            sh.violation(
                format!("C04:reference-decoder-rejects-encoding:{e:?}:{}", if bytes.len() > 16384 { "beyond-16k" } else { "below-16k" }),
                format!("independent decoder rejects the encoder's output: {e:?}"),
                replay(),
            );
        }
    }
    if sh.want_sample() && (class == "large" || sh.evaluations % 5000 == 17) {
        sh.sample(json!({"class": class, "summary": msg_summary(m, bytes.len())}));
    }
}

/// decode ∘ encode ∘ decode == decode on a byte string that decodes
fn c04_bytes_case(bytes: &[u8], sh: &mut Shard) {
    let Ok(m) = Message::from_octets(bytes) else {
        return;
    };
    sh.eval();
    sh.count("class:bytes-that-decode", 1);
    let replay = || json!({"kind": "redecode", "hex": hex(bytes)});
    match catch(|| m.to_octets()) {
        Ok(Ok(b)) => {
            if b.len() > 65535 {
                return;
            }
            match Message::from_octets(&b) {
                Ok(m2) => {
                    if m2 != m {
                        sh.violation(
                            "C04:reencode-changes-message",
                            "decode(encode(decode(bytes))) != decode(bytes)",
                            replay(),
                        );
                    } else if !m.questions.is_empty() || !m.answers.is_empty() {
                        sh.nontrivial(fnv_mix(fnv(bytes), 0xdec0de));
                    }
                }
                Err(e) => sh.violation(
                    format!("C04:reencode-undecodable:{}", variant_name(&format!("{e:?}"))),
                    format!("re-encoding of a decoded message is rejected: {e:?}"),
                    replay(),
                ),
            }
        }
        Ok(Err(_)) => {}
        Err(msg) => sh.violation("C04:encoder-panic-on-decoded-message", msg, replay()),
    }
}

fn c04(args: Args) {
    quiet_panics();
    let mut run = Run::new(
        args.clone(),
        "exploration",
        "messages: all 8192 combinations of the five header flags x opcode x rcode (x 3 ids) on a fixed body; \
         random messages over all 19 RDATA variants (unknown types/classes included) with names drawn from a \
         small pool so that they repeat as owners and inside RDATA, maximal names/labels, empty and large RDATA; \
         large messages padded to straddle or pass offset 16384 and then re-using late names; plus byte strings \
         that decode (mutated encodings) for the decode-encode-decode leg. Each message: own decoder equality, \
         independent decoder equality, audit of every compression pointer. non-trivial = has at least one \
         question or record; distinct = distinct encodings.",
    );
    run.assume("messages whose encoding exceeds 65535 bytes are outside the claim and skipped");
    let hub = TraceHub::new(&args, THREADS);
    hub.start_hang_monitor(Duration::from_secs(120));
    let n_random = args.size(1_600_000, 40_000_000);
    let n_large = args.size(24_000, 600_000);
    let n_bytes = args.size(2_000_000, 60_000_000);
    let seed = args.seed;
    run.exhaustive = false;
    run.set_extra("header_sweep", json!("exhaustive: 2^5 flags x 16 opcodes x 16 rcodes x 3 ids = 24576 messages"));

    run.parallel(THREADS, STACK, |ti, sh| {
        let mut tr = hub.tracer(ti);
        let mut rng = Rng::new(seed).fork(0x0400 + ti as u64);
        // header sweep (exhaustive), split over threads
        let pool = NamePool::new(&mut Rng::new(seed).fork(0x04AA), 3);
        let mut body_rng = Rng::new(seed).fork(0x04AB);
        let q = gen_question(&mut body_rng, &pool);
        let rr1 = gen_rr(&mut body_rng, &pool, 16);
        for bits in 0..8192u32 {
            if bits as usize % THREADS != ti {
                continue;
            }
            for id in [0u16, 0xFFFF, 0x1234] {
                let m = Message {
                    header: header_from_bits(id, bits),
                    questions: vec![q.clone()],
                    answers: vec![rr1.clone()],
                    authority: Vec::new(),
                    additional: Vec::new(),
                };
                c04_message_case(&m, "header-sweep", sh, &mut tr);
                sh.count("class:header-sweep", 1);
            }
        }
        for _ in 0..(n_random / THREADS as u64) {
            let m = match rng.below(20) {
                0 => gen_message(&mut rng, 40, 300),
                1 => gen_message(&mut rng, 3, 65535),
                2 => gen_message(&mut rng, 0, 0),
                _ => gen_message(&mut rng, 5, 48),
            };
            c04_message_case(&m, "random", sh, &mut tr);
            sh.count("class:random", 1);
        }
        for _ in 0..(n_large / THREADS as u64) {
            let m = gen_large_message(&mut rng);
            c04_message_case(&m, "large", sh, &mut tr);
            sh.count("class:large", 1);
        }
        // many tiny records (count up to 65535 when it fits)
        if ti < 4 {
            let n = [65535usize, 5000, 4681, 300][ti];
            let m = Message {
                header: gen_header(&mut rng),
                questions: Vec::new(),
                answers: (0..n)
                    .map(|_| ResourceRecord {
                        name: DomainName::root_domain(),
                        rtype_with_data: RecordTypeWithData::NULL {
                            octets: bytes::Bytes::new(),
                        },
                        rclass: RecordClass::IN,
                        ttl: 1,
                    })
                    .collect(),
                authority: Vec::new(),
                additional: Vec::new(),
            };
            c04_message_case(&m, "many-records", sh, &mut tr);
            sh.count("class:many-records", 1);
        }
        // bytes that decode: mutate encodings, keep those the decoder accepts
        let mut produced = 0u64;
        while produced < n_bytes / THREADS as u64 {
            let m = gen_message(&mut rng, 3, 24);
            let Ok(b) = m.to_octets() else { continue };
            let mut b = b.to_vec();
            for _ in 0..8 {
                produced += 1;
                if b.len() > 12 {
                    let pos = rng.below(b.len());
                    b[pos] = match rng.below(4) {
                        0 => 0xC0,
                        1 => rng.next_u32() as u8,
                        2 => b[pos].wrapping_add(1),
                        _ => 0,
                    };
                }
                c04_bytes_case(&b, sh);
            }
        }
    });
    run.finish(1000);
}

// ---------------------------------------------------------------------------
// C16

fn hash_of<T: Hash>(t: &T) -> u64 {
    let mut h = DefaultHasher::new();
    t.hash(&mut h);
    h.finish()
}

fn label_bytes(rng: &mut Rng, len: usize) -> Vec<u8> {
    // all ASCII octets except '.', letters in both cases
    let mut v = Vec::with_capacity(len);
    for _ in 0..len {
        let mut b = match rng.below(4) {
            0 => rng.below(128) as u8,
            1 => b'A' + rng.below(26) as u8,
            _ => b'a' + rng.below(26) as u8,
        };
        if b == b'.' {
            b = b'-';
        }
        v.push(b);
    }
    v
}

fn dotted(labels: &[Vec<u8>], trailing_dot: bool) -> String {
    let mut s = String::new();
    for (i, l) in labels.iter().enumerate() {
        if i > 0 {
            s.push('.');
        }
        for b in l {
            s.push(*b as char);
        }
    }
    if trailing_dot {
        s.push('.');
    }
    s
}

fn encoded_len(labels: &[Vec<u8>]) -> usize {
    labels.iter().map(|l| l.len() + 1).sum::<usize>() + 1
}

fn valid(labels: &[Vec<u8>]) -> bool {
    labels.iter().all(|l| !l.is_empty() && l.len() <= 63) && encoded_len(labels) <= 255
}

fn lower(labels: &[Vec<u8>]) -> Vec<Vec<u8>> {
    labels.iter().map(|l| l.to_ascii_lowercase()).collect()
}

fn name_matches(n: &DomainName, labels: &[Vec<u8>]) -> bool {
    let want = lower(labels);
    n.labels.len() == want.len() + 1
        && n.labels.last().is_some_and(|l| l.is_empty())
        && n.labels.iter().zip(want.iter()).all(|(a, b)| a.octets()[..] == b[..])
}

/// Check one constructor outcome against arithmetic on the label lengths.
fn expect_name(
    sh: &mut Shard,
    path: &str,
    got: Option<DomainName>,
    labels: &[Vec<u8>],
    should_accept: bool,
    input: impl Fn() -> Value,
) {
    sh.eval();
    sh.count(&format!("path:{path}"), 1);
    match got {
        Some(n) => {
            if !should_accept {
                sh.violation(
                    format!("C16:{path}:accepts-over-limit"),
                    format!("{path} accepted input over a limit (encoded length {}, longest label {})", encoded_len(labels), labels.iter().map(Vec::len).max().unwrap_or(0)),
                    input(),
                );
                return;
            }
            if let Some(p) = name_problem(&n) {
                sh.violation(format!("C16:{path}:malformed-result"), p, input());
                return;
            }
            if !name_matches(&n, labels) {
                sh.violation(
                    format!("C16:{path}:wrong-labels"),
                    format!("{path} built {n:?}, expected lower-cased labels of the input"),
                    input(),
                );
            }
        }
        None => {
            if should_accept {
                sh.violation(
                    format!("C16:{path}:rejects-within-limits"),
                    format!("{path} rejected input within the limits (encoded length {})", encoded_len(labels)),
                    input(),
                );
            }
        }
    }
}

fn wire_name(labels: &[Vec<u8>]) -> Vec<u8> {
    let mut v = Vec::new();
    for l in labels {
        v.push(l.len() as u8);
        v.extend_from_slice(l);
    }
    v.push(0);
    v
}

fn c16_sequence(labels: &[Vec<u8>], sh: &mut Shard, rng: &mut Rng) {
    let ok = valid(labels);
    let lens: Vec<usize> = labels.iter().map(Vec::len).collect();
    let input = || json!({"kind": "labels", "label_lengths": lens, "labels_hex": labels.iter().map(|l| hex(l)).collect::<Vec<_>>()});
    let hbase = fnv(format!("{lens:?}").as_bytes());
    sh.nontrivial(hbase);

    // from_labels (only expressible if every label fits a Label)
    if labels.iter().all(|l| l.len() <= 63) {
        let mut ls: Vec<Label> = labels.iter().map(|l| Label::try_from(&l[..]).unwrap()).collect();
        ls.push(Label::new());
        expect_name(sh, "from_labels", DomainName::from_labels(ls), labels, ok, input);
    } else {
        for l in labels.iter().filter(|l| l.len() > 63) {
            sh.eval();
            if Label::try_from(&l[..]).is_ok() {
                sh.violation("C16:label:accepts-over-63", format!("Label::try_from accepted {} octets", l.len()), input());
            }
        }
    }
    // dotted string
    let s = dotted(labels, true);
    expect_name(sh, "from_dotted_string", DomainName::from_dotted_string(&s), labels, ok, input);
    // without the final dot it is not absolute
    if !labels.is_empty() {
        sh.eval();
        if DomainName::from_dotted_string(&dotted(labels, false)).is_some() {
            sh.violation("C16:from_dotted_string:accepts-relative", "accepted a dotted string without the final dot", input());
        }
    }
    // relative to every origin split
    for cut in 0..=labels.len() {
        let (rel, org) = labels.split_at(cut);
        if !valid(org) {
            continue;
        }
        let mut ols: Vec<Label> = org.iter().map(|l| Label::try_from(&l[..]).unwrap()).collect();
        ols.push(Label::new());
        let Some(origin) = DomainName::from_labels(ols) else { continue };
        sh.nontrivial(fnv_mix(hbase, cut as u64 + 1));
        let rel_s = dotted(rel, false);
        if !(rel.is_empty() && cut == 0) {
            expect_name(
                sh,
                "from_relative_dotted_string",
                DomainName::from_relative_dotted_string(&origin, &rel_s),
                labels,
                ok,
                || json!({"kind": "relative", "relative": rel_s, "origin_label_lengths": org.iter().map(Vec::len).collect::<Vec<_>>(), "label_lengths": lens}),
            );
        }
        // make_subdomain_of needs `rel` to be a name itself
        if valid(rel) {
            let mut rls: Vec<Label> = rel.iter().map(|l| Label::try_from(&l[..]).unwrap()).collect();
            rls.push(Label::new());
            if let Some(sub) = DomainName::from_labels(rls) {
                expect_name(
                    sh,
                    "make_subdomain_of",
                    sub.make_subdomain_of(&origin),
                    labels,
                    ok,
                    || json!({"kind": "join", "cut": cut, "label_lengths": lens}),
                );
            }
        }
        // wire: prefix labels + pointer to the suffix written earlier (offset 12)
        if labels.iter().all(|l| l.len() <= 63) {
            let mut m = header(1, 0x8000, 0, 2, 0, 0);
            m.extend_from_slice(&wire_name(org));
            m.extend_from_slice(&[0, 16, 0, 1, 0, 0, 0, 0, 0, 0]);
            let second_name_at = m.len();
            for l in rel {
                m.push(l.len() as u8);
                m.extend_from_slice(l);
            }
            if org.is_empty() {
                m.push(0); // no pointer: plain uncompressed name
            } else {
                m.extend_from_slice(&[0xC0, 12]);
            }
            m.extend_from_slice(&[0, 16, 0, 1, 0, 0, 0, 0, 0, 0]);
            let _ = second_name_at;
            let got = Message::from_octets(&m).ok().map(|msg| msg.answers[1].name.clone());
            expect_name(sh, "wire", got, labels, ok, || json!({"kind": "wire", "hex": hex(&m), "cut": cut}));
        }
    }
    // case-insensitivity: re-cased spelling is the same name
    if ok {
        let recased: Vec<Vec<u8>> = labels
            .iter()
            .map(|l| l.iter().map(|b| if rng.bool() { b.to_ascii_uppercase() } else { b.to_ascii_lowercase() }).collect())
            .collect();
        let a = DomainName::from_dotted_string(&dotted(labels, true));
        let b = DomainName::from_dotted_string(&dotted(&recased, true));
        sh.eval();
        sh.count("path:case", 1);
        if let (Some(a), Some(b)) = (a, b) {
            if a != b || hash_of(&a) != hash_of(&b) || a.cmp(&b) != std::cmp::Ordering::Equal {
                sh.violation("C16:case:spellings-differ", "names differing only in ASCII case compare or hash differently", input());
            }
            // text round trip
            let back = DomainName::from_dotted_string(&a.to_dotted_string());
            if back.as_ref() != Some(&a) {
                sh.violation("C16:text-roundtrip", format!("from_dotted_string(to_dotted_string(n)) = {back:?} != n"), input());
            }
        }
    }
}

fn c16(args: Args) {
    quiet_panics();
    let mut run = Run::new(
        args.clone(),
        "exploration",
        "exhaustive part: every sequence of <= 8 label lengths over {1,2,61,62,63,64} whose encoded total is \
         in 245..=262, each through from_labels, from_dotted_string, from_relative_dotted_string and \
         make_subdomain_of at every origin split, and through the wire decoder uncompressed and with a pointer \
         at every label boundary; accept/reject decided by arithmetic on the lengths. random part: label \
         sequences of any shape over all ASCII octets except '.', malformed dotted strings, case variants \
         (Eq/Ord/Hash, Zones::get, Zone::resolve, SharedCache::get), subdomain relation vs label-wise suffix. \
         non-trivial = every case (each exercises a constructor decision); distinct = distinct (length \
         sequence, split) pairs / distinct strings.",
    );
    let seed = args.seed;
    run.exhaustive = false;

    // exhaustive boundary sequences
    let alphabet = [1usize, 2, 61, 62, 63, 64];
    let mut seqs: Vec<Vec<usize>> = Vec::new();
    fn rec(alpha: &[usize], cur: &mut Vec<usize>, total: usize, out: &mut Vec<Vec<usize>>) {
        if (245..=262).contains(&(total + 1)) {
            out.push(cur.clone());
        }
        if cur.len() == 8 || total + 1 > 262 {
            return;
        }
        for a in alpha {
            cur.push(*a);
            rec(alpha, cur, total + a + 1, out);
            cur.pop();
        }
    }
    rec(&alphabet, &mut Vec::new(), 0, &mut seqs);
    run.set_extra("boundary_sequences_enumerated", json!(seqs.len()));
    run.set_extra("exhaustive_part", json!("label-length sequences (<= 8 labels over {1,2,61,62,63,64}, encoded total 245..=262): complete"));
    let n_random = args.size(1_500_000, 80_000_000);

    run.parallel(THREADS, 8 << 20, |ti, sh| {
        let mut rng = Rng::new(seed).fork(0x1600 + ti as u64);
        for (i, s) in seqs.iter().enumerate() {
            if i % THREADS != ti {
                continue;
            }
            let labels: Vec<Vec<u8>> = s.iter().map(|l| label_bytes(&mut rng, *l)).collect();
            c16_sequence(&labels, sh, &mut rng);
            if sh.want_sample() && encoded_len(&labels) == 256 {
                sh.sample(json!({"label_lengths": s, "encoded_len": 256, "expected": "rejected by every constructor"}));
            }
        }
        sh.count("boundary_sequences", seqs.iter().enumerate().filter(|(i, _)| i % THREADS == ti).count() as u64);

        for k in 0..(n_random / THREADS as u64) {
            // random label sequences
            let n = match rng.below(10) {
                0 => 0,
                1 => rng.range(10, 130),
                _ => rng.range(1, 6),
            };
            let labels: Vec<Vec<u8>> = (0..n)
                .map(|_| {
                    let len = match rng.below(12) {
                        0 => 63,
                        1 => 64,
                        2 => rng.range(50, 70),
                        _ => rng.range(1, 12),
                    };
                    label_bytes(&mut rng, len)
                })
                .collect();
            c16_sequence(&labels, sh, &mut rng);

            // malformed dotted strings: empty labels
            if k % 4 == 0 {
                let nb = rng.range(1, 4);
                let mut base: Vec<Vec<u8>> = Vec::new();
                for _ in 0..nb {
                    let l = rng.range(1, 5);
                    base.push(label_bytes(&mut rng, l));
                }
                let good = dotted(&base, true);
                let bad = match rng.below(4) {
                    0 => format!(".{good}"),
                    1 => format!("{good}."),
                    2 => good.replacen('.', "..", 1),
                    _ => "..".to_string(),
                };
                sh.eval();
                sh.count("path:empty-label-strings", 1);
                sh.nontrivial(fnv(bad.as_bytes()));
                if let Some(n) = DomainName::from_dotted_string(&bad) {
                    sh.violation(
                        "C16:from_dotted_string:accepts-empty-label",
                        format!("accepted {bad:?} as {n:?}"),
                        json!({"kind": "string", "string": bad}),
                    );
                }
                sh.eval();
                if DomainName::from_dotted_string(".") != Some(DomainName::root_domain()) {
                    sh.violation("C16:root-string", "\".\" does not read as the root", json!({"kind": "string", "string": "."}));
                }
            }

            // subdomain relation vs label-wise suffix, on related and unrelated names
            if k % 2 == 0 {
                let a = gen_name(&mut rng);
                let b = match rng.below(3) {
                    0 => gen_name(&mut rng),
                    1 => {
                        // a suffix of a
                        let n = a.labels.len();
                        let kk = rng.range(1, n);
                        DomainName::from_labels(a.labels[n - kk..].to_vec()).unwrap()
                    }
                    _ => {
                        // a name sharing a suffix with a, diverging above it
                        let n = a.labels.len();
                        let kk = rng.range(1, n);
                        let mut ls = vec![label(b"zz")];
                        ls.extend_from_slice(&a.labels[n - kk..]);
                        DomainName::from_labels(ls).unwrap_or_else(DomainName::root_domain)
                    }
                };
                sh.eval();
                sh.count("path:is_subdomain_of", 1);
                sh.nontrivial(fnv_mix(hash_of(&a), hash_of(&b)));
                for (x, y) in [(&a, &b), (&b, &a)] {
                    if x.is_subdomain_of(y) != is_suffix(x, y) {
                        sh.violation(
                            "C16:is_subdomain_of-differs-from-suffix",
                            format!("{x:?}.is_subdomain_of({y:?}) = {}", x.is_subdomain_of(y)),
                            json!({"kind": "pair", "a": show_name(x), "b": show_name(y)}),
                        );
                    }
                }
            }

            // selection of zones / cache entries regardless of case
            if k % 8 == 0 {
                c16_selection(sh, &mut rng);
            }
        }
    });
    run.finish(1000);
}

/// Zones::get / Zone::resolve / SharedCache::get with re-cased names.
fn c16_selection(sh: &mut Shard, rng: &mut Rng) {
    use dns_resolver::cache::SharedCache;
    use dns_types::zones::types::{Zone, ZoneResult, Zones};
    let labels: Vec<Vec<u8>> = (0..rng.range(1, 4))
        .map(|_| (0..rng.range(1, 6)).map(|_| b'a' + rng.below(26) as u8).collect())
        .collect();
    let upper: Vec<Vec<u8>> = labels
        .iter()
        .map(|l| l.iter().map(|b| if rng.bool() { b.to_ascii_uppercase() } else { *b }).collect())
        .collect();
    let lo = DomainName::from_dotted_string(&dotted(&labels, true)).unwrap();
    let up = DomainName::from_dotted_string(&dotted(&upper, true)).unwrap();
    let apex_k = rng.range(1, lo.labels.len());
    let apex = DomainName::from_labels(lo.labels[lo.labels.len() - apex_k..].to_vec()).unwrap();
    let mut zone = Zone::new(apex.clone(), None);
    let addr = std::net::Ipv4Addr::from(rng.next_u32());
    zone.insert(&lo, a(addr), 300);
    let mut zones = Zones::new();
    zones.insert(zone);
    sh.eval();
    sh.count("path:selection", 1);
    sh.nontrivial(fnv_mix(hash_of(&lo), 0x5e1));
    let replay = json!({"kind": "selection", "lower": dotted(&labels, true), "recased": dotted(&upper, true)});
    let want = rr(&up, a(addr), 300);
    match zones.resolve(&up, qt(RecordType::A)) {
        Some((_, ZoneResult::Answer { rrs })) if rrs == vec![want.clone()] => {}
        other => sh.violation(
            "C16:zone-selection-case-sensitive",
            format!("zone lookup with a re-cased name gave {:?}", other.map(|o| o.1)),
            replay.clone(),
        ),
    }
    let cache = SharedCache::new();
    cache.insert(&rr(&lo, a(addr), 300));
    let got = cache.get(&up, qt(RecordType::A));
    if got.len() != 1 || got[0].rtype_with_data != a(addr) {
        sh.violation(
            "C16:cache-selection-case-sensitive",
            format!("cache lookup with a re-cased name gave {} records", got.len()),
            replay,
        );
    }
}

// ---------------------------------------------------------------------------

fn replay(args: &Args, path: &std::path::Path) {
    let text = std::fs::read_to_string(path).expect("read replay");
    let v: Value = serde_json::from_str(&text).expect("replay json");
    let case = v["case"].clone();
    let Some(h) = case.get("hex").and_then(Value::as_str) else {
        println!("replay file has no 'hex' field; case = {case}");
        return;
    };
    let bytes = unhex(h);
    let args = args.clone();
    std::thread::Builder::new()
        .stack_size(STACK)
        .spawn(move || {
            let mut sh = Shard::new();
            let hub = TraceHub::new(&args, 1);
            let mut tr = hub.tracer(0);
            match args.prop.as_str() {
                "C03" | "C16" => c03_case(&bytes, "replay", &mut sh, &mut tr),
                _ => {
                    // a round-trip witness stores the *encoding*; replay whether it reads back
                    match Message::from_octets(&bytes) {
                        Ok(m) => c04_message_case(&m, "replay", &mut sh, &mut tr),
                        Err(e) => println!("own decoder rejects the stored encoding: {e:?}"),
                    }
                    match refw::decode(&bytes) {
                        Ok((_, t)) => println!("reference decoder accepts; pointer audit: {:?}", pointer_audit(&bytes, &t)),
                        Err(e) => println!("reference decoder rejects the stored encoding: {e:?}"),
                    }
                    c04_bytes_case(&bytes, &mut sh);
                }
            }
            for v in &sh.violations {
                println!("REPLAY VIOLATION {}: {}", v.signature, v.what);
            }
            if sh.violations.is_empty() {
                println!("REPLAY: no violation on this input");
            }
        })
        .unwrap()
        .join()
        .unwrap();
}

//! C06: upstream replies are filtered.
//!
//! (A) direct: the reply filter (hook H2) on generated (question, delegation depth, reply);
//! (B) end-to-end: a resolution whose first upstream reply is adversarial and all later ones
//!     REFUSED; what is new in the cache and what is in the answer must be inside the
//!     allowed set computed from the statement of the property.

use dns_resolver::cache::SharedCache;
use dns_resolver::recursive::{verif_validate_nameserver_response, NameserverResponse};
use dns_resolver::util::types::ProtocolMode;
use dns_types::protocol::types::*;
use dns_types::zones::types::{Zone, Zones};
use serde_json::{json, Value};
use std::collections::BTreeSet;
use std::net::{Ipv4Addr, Ipv6Addr};
use std::time::Duration;

use verif_harness::crash::TraceHub;
use verif_harness::names::*;
use verif_harness::netsim::*;
use verif_harness::refmodel::zone::{is_suffix, suffix_of};
use verif_harness::rng::{fnv, fnv_mix, Rng};
use verif_harness::run::{Args, Run, Shard};

use crate::{freeze_cache_clock, log_json, result_json, STACK, THREADS};

type Key = (DomainName, RecordTypeWithData);

fn key(r: &ResourceRecord) -> Key {
    (r.name.clone(), r.rtype_with_data.clone())
}

pub struct Allowed {
    pub path: BTreeSet<DomainName>,
    pub answer: BTreeSet<Key>,
    pub ns: BTreeSet<Key>,
    pub ns_owners: BTreeSet<DomainName>,
    pub ns_hosts: BTreeSet<DomainName>,
    pub glue: BTreeSet<Key>,
}

impl Allowed {
    pub fn contains(&self, k: &Key) -> bool {
        self.answer.contains(k) || self.ns.contains(k) || self.glue.contains(k)
    }
}

/// The allowed set straight from the statement, section-agnostic (as permissive as the statement).
pub fn allowed(q: &Question, reply: &Message, match_count: usize) -> Allowed {
    let all: Vec<&ResourceRecord> = reply.answers.iter().chain(&reply.authority).chain(&reply.additional).collect();
    // names reached from the qname by following CNAME records of the reply (all branches, stop on repeat)
    let mut path: BTreeSet<DomainName> = BTreeSet::new();
    let mut todo = vec![q.name.clone()];
    while let Some(n) = todo.pop() {
        if !path.insert(n.clone()) {
            continue;
        }
        for r in &all {
            if r.name == n {
                if let RecordTypeWithData::CNAME { cname } = &r.rtype_with_data {
                    todo.push(cname.clone());
                }
            }
        }
    }
    // "the name reached": a filter may or may not follow CNAMEs that sit outside the answer section, so a
    // path name counts as a possible end of the path unless the *answer section* aliases it further
    let has_cname = |n: &DomainName| reply.answers.iter().any(|r| &r.name == n && matches!(r.rtype_with_data, RecordTypeWithData::CNAME { .. }));
    let mut answer = BTreeSet::new();
    for r in &all {
        if !path.contains(&r.name) {
            continue;
        }
        if matches!(r.rtype_with_data, RecordTypeWithData::CNAME { .. }) {
            // the CNAME records on the path
            answer.insert(key(r));
        } else if r.rtype_with_data.matches(q.qtype) && !has_cname(&r.name) {
            // records of the asked type at the name the path ends at
            answer.insert(key(r));
        }
    }
    let mut ns = BTreeSet::new();
    let mut ns_owners = BTreeSet::new();
    let mut ns_hosts = BTreeSet::new();
    for r in &all {
        if let RecordTypeWithData::NS { nsdname } = &r.rtype_with_data {
            if is_suffix(&q.name, &r.name) && r.name.labels.len() > match_count {
                ns.insert(key(r));
                ns_owners.insert(r.name.clone());
                ns_hosts.insert(nsdname.clone());
            }
        }
    }
    let mut glue = BTreeSet::new();
    for r in &all {
        if matches!(r.rtype_with_data, RecordTypeWithData::A { .. } | RecordTypeWithData::AAAA { .. }) && ns_hosts.contains(&r.name) {
            glue.insert(key(r));
        }
    }
    Allowed {
        path,
        answer,
        ns,
        ns_owners,
        ns_hosts,
        glue,
    }
}

// ---------------------------------------------------------------------------
// adversarial replies

pub struct Names {
    pub qname: DomainName,
    pub ancestors: Vec<DomainName>,
    pub others: Vec<DomainName>,
    pub hosts: Vec<DomainName>,
    pub targets: Vec<DomainName>,
}

pub fn gen_names(rng: &mut Rng) -> Names {
    let depth = rng.range(1, 4);
    let labels = ["www", "example", "com", "a", "b"];
    let mut ls: Vec<&str> = Vec::new();
    for i in 0..depth {
        ls.push(labels[(i + rng.below(2)) % labels.len()]);
    }
    let qname = dn(&format!("{}.", ls.join(".")));
    let ancestors: Vec<DomainName> = (1..=qname.labels.len()).map(|k| suffix_of(&qname, k)).collect();
    let mut others = vec![dn("victim.test."), dn("evil.test."), dn("unrelated.")];
    // a sibling and a child of the qname
    if qname.labels.len() > 1 {
        let mut s = qname.labels.clone();
        s[0] = label(b"sibling");
        others.push(DomainName::from_labels(s).unwrap());
    }
    let mut c = vec![label(b"child")];
    c.extend_from_slice(&qname.labels);
    others.push(DomainName::from_labels(c).unwrap());
    Names {
        qname,
        ancestors,
        others,
        hosts: vec![dn("ns1.hosting.test."), dn("ns2.hosting.test."), dn("ns.victim.test.")],
        targets: vec![dn("t1.alias.test."), dn("t2.alias.test."), dn("t3.elsewhere.")],
    }
}

fn any_name(rng: &mut Rng, n: &Names) -> DomainName {
    match rng.below(6) {
        0 => n.qname.clone(),
        1 => rng.pick(&n.ancestors).clone(),
        2 => rng.pick(&n.others).clone(),
        3 => rng.pick(&n.hosts).clone(),
        _ => rng.pick(&n.targets).clone(),
    }
}

fn data_of_type(rng: &mut Rng, t: QueryType, tag: u8) -> RecordTypeWithData {
    match t {
        QueryType::Record(RecordType::AAAA) => aaaa(Ipv6Addr::new(0x2001, 0xdb8, 0xbad, tag.into(), 0, 0, 0, rng.below(4) as u16)),
        QueryType::Record(RecordType::TXT) => txt(&[b'u', tag, rng.below(4) as u8]),
        QueryType::Record(RecordType::MX) => mx(rng.below(3) as u16, &dn("mx.evil.test.")),
        _ => a(Ipv4Addr::new(192, 0, 2, rng.below(250) as u8 + 1)),
    }
}

pub fn gen_record(rng: &mut Rng, n: &Names, q: &Question) -> ResourceRecord {
    let ttl = *rng.pick(&[0u32, 60, 300, 3600]);
    let tag = rng.below(200) as u8;
    match rng.below(14) {
        // CNAMEs: on path, chains, loops, off path
        0 => rr(&n.qname, cname(rng.pick(&n.targets)), ttl),
        1 => rr(&n.targets[0], cname(&n.targets[1]), ttl),
        2 => rr(&n.targets[1], cname(if rng.bool() { &n.qname } else { &n.targets[2] }), ttl),
        3 => rr(rng.pick(&n.others), cname(&any_name(rng, n)), ttl),
        // data of the asked type at various names
        4 => rr(&n.qname, data_of_type(rng, q.qtype, tag), ttl),
        5 => rr(rng.pick(&n.targets), data_of_type(rng, q.qtype, tag), ttl),
        6 => rr(&any_name(rng, n), data_of_type(rng, q.qtype, tag), ttl),
        // data of another type at the qname
        7 => rr(&n.qname, if q.qtype == qt(RecordType::TXT) { a(Ipv4Addr::new(192, 0, 2, 77)) } else { txt(b"other") }, ttl),
        // NS: ancestors of every depth, the qname itself, non-ancestors, foreign owners naming the same hosts
        8 | 9 => rr(rng.pick(&n.ancestors), ns(rng.pick(&n.hosts)), ttl),
        10 => rr(rng.pick(&n.others), ns(rng.pick(&n.hosts)), ttl),
        // glue for named and unnamed hosts, A for the qname inside referrals
        11 => {
            let h = if rng.chance(3, 4) { rng.pick(&n.hosts).clone() } else { any_name(rng, n) };
            if rng.bool() {
                rr(&h, a(Ipv4Addr::new(198, 51, 100, rng.below(250) as u8 + 1)), ttl)
            } else {
                rr(&h, aaaa(Ipv6Addr::new(0x2001, 0xdb8, 0x99, 0, 0, 0, 0, rng.below(9) as u16)), ttl)
            }
        }
        // SOAs
        12 => rr(
            &if rng.bool() { rng.pick(&n.ancestors).clone() } else { any_name(rng, n) },
            RecordTypeWithData::SOA {
                mname: dn("m."),
                rname: dn("r."),
                serial: 1,
                refresh: 2,
                retry: 3,
                expire: 4,
                minimum: 5,
            },
            ttl,
        ),
        // unknown type / class
        _ => {
            let mut r = rr(&any_name(rng, n), RecordTypeWithData::Unknown {
                tag: match RecordType::from(4242) {
                    RecordType::Unknown(t) => t,
                    _ => unreachable!(),
                },
                octets: bytes::Bytes::from_static(b"\x01\x02"),
            }, ttl);
            if rng.bool() {
                r = rr(&n.qname, data_of_type(rng, q.qtype, tag), ttl);
                r.rclass = RecordClass::from(3);
            }
            r
        }
    }
}

pub fn gen_reply(rng: &mut Rng, n: &Names, q: &Question, id: u16) -> Message {
    let mut m = Message::from_question(id, q.clone());
    m.header.is_response = true;
    m.header.is_authoritative = rng.bool();
    m.header.rcode = if rng.chance(1, 6) { Rcode::NameError } else { Rcode::NoError };
    for sec in 0..3 {
        let k = match rng.below(5) {
            0 => 0,
            1 => rng.range(3, 12),
            _ => rng.range(1, 3),
        };
        for _ in 0..k {
            let r = gen_record(rng, n, q);
            match sec {
                0 => m.answers.push(r),
                1 => m.authority.push(r),
                _ => m.additional.push(r),
            }
        }
    }
    m
}

fn reply_json(m: &Message) -> Value {
    json!({"rcode": format!("{}", m.header.rcode), "answers": rrs_json(&m.answers), "authority": rrs_json(&m.authority), "additional": rrs_json(&m.additional)})
}

/// Classify a record that is outside the allowed set (for specific signatures).
fn classify(r: &ResourceRecord, q: &Question, al: &Allowed, match_count: usize) -> String {
    match &r.rtype_with_data {
        RecordTypeWithData::CNAME { .. } => "off-path-cname".into(),
        RecordTypeWithData::NS { nsdname } => {
            if !is_suffix(&q.name, &r.name) {
                if al.ns_hosts.contains(nsdname) {
                    "ns-with-foreign-owner-naming-a-selected-host".into()
                } else {
                    "ns-for-non-ancestor".into()
                }
            } else if r.name.labels.len() <= match_count {
                "ns-not-deeper-than-delegation-in-use".into()
            } else {
                "ns-other".into()
            }
        }
        RecordTypeWithData::A { .. } | RecordTypeWithData::AAAA { .. } if !al.path.contains(&r.name) => "address-of-host-no-allowed-ns-names".into(),
        _ if !al.path.contains(&r.name) => "record-with-unrelated-owner".into(),
        _ if !r.rtype_with_data.matches(q.qtype) => "record-of-other-type".into(),
        _ => "record-at-non-final-path-name".into(),
    }
}

fn direct_case(rng: &mut Rng, sh: &mut Shard) {
    let n = gen_names(rng);
    let q = question(&n.qname, *rng.pick(&[qt(RecordType::A), qt(RecordType::A), qt(RecordType::AAAA), qt(RecordType::TXT), qt(RecordType::MX), qt(RecordType::CNAME), qt(RecordType::NS)]));
    let match_count = rng.below(n.qname.labels.len().min(5) + 1);
    let reply = gen_reply(rng, &n, &q, 7);
    sh.eval();
    let al = allowed(&q, &reply, match_count);
    let got = verif_validate_nameserver_response(&q, &reply, match_count);
    let replay = || json!({"kind": "reply-filter", "question": question_json(&q), "delegation_labels_in_use": match_count, "reply": reply_json(&reply), "filter_returned": format!("{got:?}")});
    let Some(got) = &got else {
        sh.count("filter:rejected-reply", 1);
        return;
    };
    let check_rrs = |rrs: &[ResourceRecord], what: &str, sh: &mut Shard, ok: &dyn Fn(&Key) -> bool| {
        for r in rrs {
            if !ok(&key(r)) {
                sh.violation(
                    format!("C06:filter-keeps:{}", classify(r, &q, &al, match_count)),
                    format!("{what} keeps {} which is outside the allowed set", show_rr(r)),
                    replay(),
                );
                return;
            }
        }
    };
    match got {
        NameserverResponse::Answer { rrs, soa_rr } => {
            sh.count("filter:answer", 1);
            check_rrs(rrs, "Answer", sh, &|k| al.answer.contains(k));
            if let Some(s) = soa_rr {
                if !is_suffix(&q.name, &s.name) || s.name.labels.len() < match_count {
                    sh.violation("C06:filter-passes-soa-that-cannot-be-authoritative", format!("SOA {} passed on for {}", show_rr(s), question_json(&q)), replay());
                }
            }
        }
        NameserverResponse::CNAME { rrs, cname } => {
            sh.count("filter:cname", 1);
            check_rrs(rrs, "CNAME", sh, &|k| al.answer.contains(k));
            if !al.path.contains(cname) {
                sh.violation("C06:filter-follows-off-path-name", format!("continues at {} which is not reached from the question name", show_name(cname)), replay());
            }
        }
        NameserverResponse::Delegation { rrs, delegation } => {
            sh.count("filter:delegation", 1);
            check_rrs(rrs, "Delegation", sh, &|k| al.ns.contains(k) || al.glue.contains(k));
            if !al.ns_owners.contains(&delegation.name) {
                sh.violation(
                    "C06:delegation-to-non-ancestor-or-not-deeper",
                    format!("delegation name {} with {} labels in use", show_name(&delegation.name), match_count),
                    replay(),
                );
            }
            for h in &delegation.hostnames {
                if !al.ns_hosts.contains(h) {
                    sh.violation("C06:delegation-host-not-named-by-allowed-ns", show_name(h), replay());
                }
            }
        }
    }
    let mut h = fnv(format!("{:?}", reply_json(&reply)).as_bytes());
    h = fnv_mix(h, match_count as u64);
    sh.nontrivial(fnv_mix(h, u64::from(u16::from(q.qtype))));
    if sh.want_sample() && reply.answers.len() + reply.authority.len() > 4 {
        sh.sample(json!({"class": "direct", "question": question_json(&q), "delegation_labels_in_use": match_count, "reply": reply_json(&reply), "filter_returned": format!("{got:?}").chars().take(400).collect::<String>()}));
    }
}

#[derive(Copy, Clone, Debug, PartialEq, Eq)]
enum Discard {
    None,
    WrongId,
    NotResponse,
    Opcode,
    Truncated,
    Rcode(u8),
    WrongQuestion,
}

fn hints() -> (Zone, std::net::IpAddr) {
    let mut z = Zone::new(DomainName::root_domain(), None);
    z.insert(&DomainName::root_domain(), ns(&dn("r0.rootns.")), 3600);
    z.insert(&dn("r0.rootns."), a(Ipv4Addr::new(192, 0, 2, 2)), 3600);
    (z, std::net::IpAddr::V4(Ipv4Addr::new(192, 0, 2, 2)))
}

fn e2e_case(rng: &mut Rng, sim: &mut Sim, sh: &mut Shard) {
    let n = gen_names(rng);
    let q = question(&n.qname, *rng.pick(&[qt(RecordType::A), qt(RecordType::AAAA), qt(RecordType::TXT), qt(RecordType::MX)]));
    let (hz, _root_ip) = hints();
    let local: BTreeSet<Key> = hz
        .all_records()
        .iter()
        .flat_map(|(nm, zrs)| zrs.iter().map(move |zr| ((*nm).clone(), zr.rtype_with_data.clone())))
        .collect();
    let mut zones = Zones::new();
    zones.insert(hz);
    let cache = SharedCache::new();
    // something unrelated already cached
    cache.insert(&rr(&dn("already.cached."), a(Ipv4Addr::new(172, 16, 0, 1)), 300));
    let before: BTreeSet<Key> = cache.verif_snapshot().entries.iter().map(|(nm, _, d, _)| (nm.clone(), d.clone())).collect();
    let discard = match rng.below(10) {
        0 => Discard::WrongId,
        1 => Discard::NotResponse,
        2 => Discard::Opcode,
        3 => Discard::Truncated,
        4 => Discard::Rcode(*rng.pick(&[1u8, 2, 4, 5, 9])),
        5 => Discard::WrongQuestion,
        _ => Discard::None,
    };
    let template = gen_reply(rng, &n, &q, 0);
    let template2 = template.clone();
    let sent = std::sync::Arc::new(std::sync::Mutex::new(Vec::<Message>::new()));
    let sent2 = sent.clone();
    let responder: Responder = Box::new(move |ctx: &Ctx| {
        let Some(req) = ctx.request else { return (Action::Fail, "bad".into()) };
        // the adversarial reply goes to the first exchange (and, for discard classes, also to its TCP retry)
        let adversarial = ctx.index == 0 || (ctx.index == 1 && discard != Discard::None && ctx.transport == dns_resolver::util::nameserver::verif::Transport::Tcp);
        if !adversarial {
            return (Action::Reply(encode(&reply_to(req, Rcode::Refused, false, vec![], vec![], vec![]))), "refused".into());
        }
        let mut m = template2.clone();
        m.header.id = req.header.id;
        m.header.recursion_desired = req.header.recursion_desired;
        m.questions = req.questions.clone();
        match discard {
            Discard::None => {}
            Discard::WrongId => m.header.id = m.header.id.wrapping_add(1),
            Discard::NotResponse => m.header.is_response = false,
            Discard::Opcode => m.header.opcode = Opcode::from(2),
            Discard::Truncated => m.header.is_truncated = true,
            Discard::Rcode(c) => m.header.rcode = Rcode::from(c),
            Discard::WrongQuestion => m.questions[0].name = dn("some.other.question."),
        }
        sent2.lock().unwrap().push(m.clone());
        (Action::Reply(encode(&m)), format!("adversarial:{discard:?}"))
    });
    sh.eval();
    let mode = Mode::recursive(ProtocolMode::OnlyV4, 53);
    let out = sim.resolve(responder, &mode, &zones, &cache, &q);
    let after: BTreeSet<Key> = cache.verif_snapshot().entries.iter().map(|(nm, _, d, _)| (nm.clone(), d.clone())).collect();
    let new: Vec<&Key> = after.difference(&before).collect();
    let replay = || {
        json!({"kind": "adversarial-first-reply", "question": question_json(&q), "header_fault": format!("{discard:?}"), "reply": reply_json(&template),
               "result": result_json(&out.result), "newly_cached": new.iter().map(|k| show_rr(&rr(&k.0, k.1.clone(), 0))).collect::<Vec<_>>(), "exchanges": log_json(&out.log)})
    };
    sh.count(&format!("e2e:{}", if discard == Discard::None { "accepted-class" } else { "discard-class" }), 1);
    if let Err(p) = &out.result {
        sh.violation("C06:panic", p.clone(), replay());
        return;
    }
    let al = allowed(&q, &template, 1);
    if discard != Discard::None {
        if let Some(k) = new.first() {
            sh.violation(
                format!("C06:discarded-reply-reached-cache:{}", format!("{discard:?}").split('(').next().unwrap_or("")),
                format!("{} was cached from a reply that must be discarded as a whole", show_rr(&rr(&k.0, k.1.clone(), 0))),
                replay(),
            );
        }
        if let Ok(Ok(res)) = &out.result {
            if !res.clone().rrs().is_empty() {
                sh.violation(
                    format!("C06:discarded-reply-reached-answer:{}", format!("{discard:?}").split('(').next().unwrap_or("")),
                    "an answer was built from a reply that must be discarded as a whole",
                    replay(),
                );
            }
        }
    } else {
        for k in &new {
            if !al.contains(k) {
                let r = rr(&k.0, k.1.clone(), 0);
                sh.violation(
                    format!("C06:cached:{}", classify(&r, &q, &al, 1)),
                    format!("{} reached the cache but is outside the allowed set of the reply", show_rr(&r)),
                    replay(),
                );
                break;
            }
        }
        if let Ok(Ok(res)) = &out.result {
            for r in res.clone().rrs() {
                let k = key(&r);
                if !al.contains(&k) && !local.contains(&k) {
                    sh.violation(
                        format!("C06:answered:{}", classify(&r, &q, &al, 1)),
                        format!("{} is in the answer but is outside the allowed set of the reply", show_rr(&r)),
                        replay(),
                    );
                    break;
                }
            }
        }
    }
    if !new.is_empty() || discard != Discard::None {
        let mut h = fnv(format!("{:?}{discard:?}", reply_json(&template)).as_bytes());
        h = fnv_mix(h, u64::from(u16::from(q.qtype)));
        sh.nontrivial(h);
    }
    if sh.want_sample() && !new.is_empty() && sh.samples.len() < 2 {
        sh.sample(replay());
    }
}

pub fn run(args: Args) {
    let mut run = Run::new(
        args.clone(),
        "exploration",
        "(A) direct: the reply filter is called (hook H2) on generated (question, labels of the delegation in use 0..5, reply) \
         with 0..12 records per section drawn from: on-path CNAMEs, CNAME chains and loops, off-path CNAMEs, data of the asked \
         type at the qname / at alias targets / at unrelated names, data of another type, NS for ancestors of every depth, for \
         the qname, for siblings, children and unrelated names, foreign-owner NS naming the same hosts, glue for named and \
         unnamed hosts, SOAs with plausible and implausible owners, unknown types and classes, NXDOMAIN and NOERROR; every record \
         the filter keeps must lie in the allowed set computed from the statement, and the continuation name / delegation must be \
         consistent with it. (B) end to end: a resolution against hints -> root server whose first reply is such a reply and all \
         later ones REFUSED; newly cached records and the answer must lie in the allowed set (+ local data); replies with a wrong \
         ID, QR=0, other opcode, TC, rcode other than 0/3 or another question (sent on UDP and on the TCP retry) must leave the \
         cache unchanged and produce no answer. non-trivial = reply the filter accepted / run that cached something or exercised \
         a discard class; distinct = distinct (reply, question, depth).",
    );
    run.assume("allowed set is section-agnostic and follows every CNAME branch: it is at least as permissive as the statement");
    let hub = TraceHub::new(&args, THREADS);
    hub.start_hang_monitor(Duration::from_secs(120));
    let n_direct = args.size(3_000_000, 150_000_000);
    let n_e2e = args.size(300_000, 12_000_000);
    let seed = args.seed;
    run.parallel(THREADS, STACK, |ti, sh| {
        freeze_cache_clock();
        let mut rng = Rng::new(seed).fork(0x0600 + ti as u64);
        for _ in 0..(n_direct / THREADS as u64) {
            direct_case(&mut rng, sh);
        }
        let mut sim = Sim::new();
        for _ in 0..(n_e2e / THREADS as u64) {
            e2e_case(&mut rng, &mut sim, sh);
        }
    });
    run.finish(500);
}

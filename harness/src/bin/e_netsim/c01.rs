//! C01: local zone and hosts data always win over cache and upstream.

use dns_resolver::cache::SharedCache;
use dns_resolver::util::types::{ProtocolMode, ResolvedRecord};
use dns_types::protocol::types::*;
use dns_types::zones::types::{Zone, Zones, SOA};
use serde_json::{json, Value};
use std::collections::BTreeSet;
use std::net::{IpAddr, Ipv4Addr, Ipv6Addr, SocketAddr};
use std::time::Duration;

use verif_harness::crash::{TraceHub, Tracer};
use verif_harness::names::*;
use verif_harness::netsim::*;
use verif_harness::refmodel::zone::{is_suffix, same_name, FlatRec, FlatSoa, FlatZone, RefResult};
use verif_harness::rng::{fnv, fnv_mix, Rng};
use verif_harness::run::{Args, Run, Shard};

use crate::{freeze_cache_clock, log_json, result_json, STACK, THREADS};

const APEXES: [&str; 5] = [".", "test.", "a.test.", "b.a.test.", "other."];
const LABELS: [&str; 3] = ["a", "b", "www"];

struct Config {
    flats: Vec<FlatZone>,
    zones: Zones,
    cache_seed: Vec<ResourceRecord>,
}

fn below(apex: &DomainName, rel: &[&str]) -> DomainName {
    let mut ls: Vec<Label> = rel.iter().map(|l| label(l.as_bytes())).collect();
    ls.extend_from_slice(&apex.labels);
    DomainName::from_labels(ls).unwrap()
}

fn rel_name(rng: &mut Rng, apex: &DomainName, max_depth: usize) -> DomainName {
    let d = rng.below(max_depth + 1);
    let ls: Vec<&str> = (0..d).map(|_| *rng.pick(&LABELS)).collect();
    below(apex, &ls)
}

fn build_zone(fz: &FlatZone) -> Zone {
    let soa = fz.soa.as_ref().map(|s| SOA {
        mname: s.mname.clone(),
        rname: s.rname.clone(),
        serial: s.serial,
        refresh: s.refresh,
        retry: s.retry,
        expire: s.expire,
        minimum: s.minimum,
    });
    let mut z = Zone::new(fz.apex.clone(), soa);
    for r in &fz.recs {
        if r.wildcard {
            z.insert_wildcard(&r.owner, r.data.clone(), r.ttl);
        } else {
            z.insert(&r.owner, r.data.clone(), r.ttl);
        }
    }
    z
}

fn tagged(rng: &mut Rng, zone_idx: u8, kind: usize) -> RecordTypeWithData {
    match kind {
        0 => a(Ipv4Addr::new(10, zone_idx, rng.below(3) as u8, rng.below(3) as u8)),
        1 => aaaa(Ipv6Addr::new(0xfd00, zone_idx.into(), 0, 0, 0, 0, 0, rng.below(3) as u16)),
        2 => txt(format!("z{zone_idx}:{}", rng.below(3)).as_bytes()),
        _ => mx(rng.below(3) as u16, &dn(&format!("mx.z{zone_idx}.example."))),
    }
}

fn gen_config(rng: &mut Rng, need_hints: bool) -> Config {
    let n = rng.range(1, 4);
    let mut apex_idx: Vec<usize> = (0..APEXES.len()).collect();
    rng.shuffle(&mut apex_idx);
    apex_idx.truncate(n);
    if need_hints && !apex_idx.contains(&0) {
        apex_idx.push(0);
    }
    let apexes: Vec<DomainName> = apex_idx.iter().map(|i| dn(APEXES[*i])).collect();
    let mut flats = Vec::new();
    for (zi, apex) in apexes.iter().enumerate() {
        // non-root zones are authoritative (a configuration cannot produce anything else); the root is either
        let auth = if apex.is_root() { !need_hints && rng.chance(1, 3) || need_hints && rng.chance(1, 6) } else { true };
        let soa = if auth {
            Some(FlatSoa {
                mname: below(apex, &["mname"]),
                rname: dn("hostmaster.invalid."),
                serial: zi as u32 + 1,
                refresh: 1,
                retry: 2,
                expire: 3,
                minimum: *rng.pick(&[0u32, 60, 300]),
            })
        } else {
            None
        };
        let mut recs: Vec<FlatRec> = Vec::new();
        let mut cuts: Vec<DomainName> = Vec::new();
        let mut cname_owners: Vec<DomainName> = Vec::new();
        // delegations first (D1: nothing beneath or at them)
        if rng.chance(1, 3) {
            let c = rel_name(rng, apex, 2);
            // never a cut at the apex, nor at/above the apex of a more specific configured zone (that is the other zone's business)
            if !same_name(&c, apex) {
                cuts.push(c.clone());
                for k in 0..rng.range(1, 2) {
                    recs.push(FlatRec {
                        owner: c.clone(),
                        wildcard: false,
                        data: ns(&dn(&format!("ns{k}.deleg{zi}.example."))),
                        ttl: 300,
                    });
                }
            }
        }
        let under_cut = |n: &DomainName, cuts: &[DomainName]| cuts.iter().any(|c| is_suffix(n, c));
        let n_recs = rng.range(0, 12);
        for _ in 0..n_recs {
            let owner = rel_name(rng, apex, 3);
            if under_cut(&owner, &cuts) {
                continue;
            }
            let wildcard = rng.chance(1, 6);
            let ttl = *rng.pick(&[5u32, 60, 300]);
            let data = match rng.below(10) {
                0 | 1 if !same_name(&owner, apex) && !cname_owners.contains(&owner) && !recs.iter().any(|r| same_name(&r.owner, &owner) && r.wildcard == wildcard) => {
                    cname_owners.push(owner.clone());
                    // in-zone, cross-zone, or dangling target
                    let target = match rng.below(4) {
                        0 => rel_name(rng, apex, 2),
                        1 => {
                            let other = rng.pick(&apexes).clone();
                            rel_name(rng, &other, 2)
                        }
                        2 => dn("dangling.nowhere."),
                        _ => rel_name(rng, &dn("cachedonly."), 1),
                    };
                    cname(&target)
                }
                2 => a(Ipv4Addr::new(0, 0, 0, 0)), // blocklist entry
                k => tagged(rng, zi as u8, (k as usize) % 4),
            };
            if cname_owners.contains(&owner) && !matches!(data, RecordTypeWithData::CNAME { .. }) && rng.chance(3, 4) {
                continue; // mostly keep alias names free of other data
            }
            recs.push(FlatRec {
                owner,
                wildcard,
                data,
                ttl,
            });
        }
        if apex.is_root() && need_hints {
            recs.push(FlatRec {
                owner: apex.clone(),
                wildcard: false,
                data: ns(&dn("r0.rootns.")),
                ttl: 3600,
            });
            recs.push(FlatRec {
                owner: dn("r0.rootns."),
                wildcard: false,
                data: a(Ipv4Addr::new(192, 0, 2, 2)),
                ttl: 3600,
            });
        }
        flats.push(FlatZone {
            apex: apex.clone(),
            soa,
            recs,
            preclamped: false,
        });
    }
    // D1 across zones: a more specific configured apex under another zone's cut or wildcard is fine (most specific zone
    // wins), but records of a zone located at or below a more specific configured apex are shadowed — keep them, they are
    // exactly the "less specific zone" data the property talks about.
    let mut zones = Zones::new();
    for f in &flats {
        zones.insert(build_zone(f));
    }
    // cache: conflicting records for names the zones own, CNAMEs at such names, and unrelated names
    let mut cache_seed = Vec::new();
    for (zi, f) in flats.iter().enumerate() {
        for _ in 0..rng.range(0, 6) {
            let owner = if !f.recs.is_empty() && rng.chance(2, 3) { rng.pick(&f.recs).owner.clone() } else { rel_name(rng, &f.apex, 3) };
            let data = match rng.below(6) {
                0 => cname(&dn("cache-target.cachedonly.")),
                1 => a(Ipv4Addr::new(172, 16, zi as u8, rng.below(4) as u8)),
                2 => aaaa(Ipv6Addr::new(0xfd16, zi as u16, 0, 0, 0, 0, 0, rng.below(4) as u16)),
                3 => txt(format!("cache:{zi}").as_bytes()),
                4 => ns(&dn("ns.cache-injected.example.")),
                _ => mx(1, &dn("mx.cache.example.")),
            };
            cache_seed.push(rr(&owner, data, 300));
        }
    }
    for l in LABELS {
        cache_seed.push(rr(&below(&dn("cachedonly."), &[l]), a(Ipv4Addr::new(172, 16, 200, 1)), 300));
        cache_seed.push(rr(&below(&dn("cachedonly."), &[l]), txt(b"cache:only"), 300));
    }
    // cache-only aliases into names the zones own, the cache also holding its own idea of what the target has: an
    // earlier upstream reply "x CNAME t, t A ..." leaves exactly that behind.  What is said about t is still the zone's.
    for l in LABELS {
        let owners: Vec<&FlatRec> = flats.iter().flat_map(|f| f.recs.iter()).filter(|r| !r.wildcard).collect();
        if owners.is_empty() || rng.chance(1, 3) {
            continue;
        }
        let target = if rng.chance(3, 4) { rng.pick(&owners).owner.clone() } else { below(&rng.pick(&flats).apex.clone(), &["nope"]) };
        if target.len > 200 {
            continue;
        }
        cache_seed.push(rr(&below(&dn("aliasonly."), &[l]), cname(&target), 300));
        cache_seed.push(rr(&target, a(Ipv4Addr::new(172, 16, 250, rng.below(4) as u8)), 300));
        if rng.bool() {
            cache_seed.push(rr(&target, aaaa(Ipv6Addr::new(0xfd16, 250, 0, 0, 0, 0, 0, rng.below(4) as u16)), 300));
            cache_seed.push(rr(&target, txt(b"cache:alias-target"), 300));
        }
    }
    Config {
        flats,
        zones,
        cache_seed,
    }
}

/// Upstream that answers every question with upstream-tagged data (what a hostile or merely different
/// outside world would say about the names the local zones own).
/// Address of the second-level upstream server every top-level name is delegated to.
const UP2: Ipv4Addr = Ipv4Addr::new(198, 18, 250, 1);

fn upstream_responder(forwarder: bool) -> Responder {
    Box::new(move |ctx: &Ctx| {
        let Some(req) = ctx.request else { return (Action::Fail, "bad".into()) };
        let q = &req.questions[0];
        let h = fnv(show_name(&q.name).as_bytes());
        let up_host = dn("ns.upstream-level2.example.");
        // the root server refers every name to a second server (so that answers arrive after a referral),
        // except questions about that server's own name
        if !forwarder && ctx.addr.ip() != IpAddr::V4(UP2) && q.name.labels.len() >= 2 && q.name != up_host {
            let tld = verif_harness::refmodel::zone::suffix_of(&q.name, 2);
            let authority = vec![rr(&tld, ns(&up_host), 300)];
            let additional = vec![rr(&up_host, a(UP2), 300)];
            return (Action::Reply(encode(&reply_to(req, Rcode::NoError, false, vec![], authority, additional))), "upstream-refers".into());
        }
        let ua = || rr(&q.name, a(Ipv4Addr::new(198, 18, (h / 250 % 200) as u8, (h % 250) as u8 + 1)), 300);
        let uaaaa = || rr(&q.name, aaaa(Ipv6Addr::new(0x2001, 0xdb8, 0xeeee, 0, 0, 0, 0, (h % 250) as u16)), 300);
        let utxt = || rr(&q.name, txt(b"up:stream"), 300);
        let umx = || rr(&q.name, mx(7, &dn("mx.upstream.example.")), 300);
        let answers = if q.name == up_host {
            match q.qtype {
                QueryType::Record(RecordType::A) | QueryType::Wildcard => vec![rr(&up_host, a(UP2), 300)],
                _ => vec![],
            }
        } else {
            match q.qtype {
                QueryType::Record(RecordType::A) => vec![ua()],
                QueryType::Record(RecordType::AAAA) => vec![uaaaa()],
                QueryType::Record(RecordType::TXT) => vec![utxt()],
                QueryType::Record(RecordType::MX) => vec![umx()],
                // the outside world has an opinion about every type of the name
                QueryType::Wildcard => vec![ua(), uaaaa(), utxt(), umx()],
                _ => vec![],
            }
        };
        let authority = if answers.is_empty() {
            vec![rr(
                &verif_harness::refmodel::zone::suffix_of(&q.name, q.name.labels.len().min(2)),
                RecordTypeWithData::SOA {
                    mname: dn("up."),
                    rname: dn("up."),
                    serial: 1,
                    refresh: 1,
                    retry: 1,
                    expire: 1,
                    minimum: 1,
                },
                300,
            )]
        } else {
            vec![]
        };
        (Action::Reply(encode(&reply_to(req, Rcode::NoError, true, answers, authority, vec![]))), "upstream-says".into())
    })
}

fn zstar<'a>(flats: &'a [FlatZone], name: &DomainName) -> Option<&'a FlatZone> {
    flats.iter().filter(|f| is_suffix(name, &f.apex)).max_by_key(|f| f.apex.labels.len())
}

fn cuts_of(f: &FlatZone) -> Vec<DomainName> {
    f.recs
        .iter()
        .filter(|r| !r.wildcard && matches!(r.data, RecordTypeWithData::NS { .. }) && !same_name(&r.owner, &f.apex))
        .map(|r| r.owner.clone())
        .collect()
}

fn question_names(rng: &mut Rng, cfg: &Config) -> Vec<DomainName> {
    let mut v: Vec<DomainName> = Vec::new();
    for f in &cfg.flats {
        v.push(f.apex.clone());
        for r in &f.recs {
            v.push(r.owner.clone());
            v.push(below(&r.owner, &[*rng.pick(&LABELS)]));
            v.push(below(&r.owner, &["zz", "yy"]));
        }
        v.push(rel_name(rng, &f.apex, 3));
        v.push(below(&f.apex, &["nope"]));
    }
    v.push(dn("outside.everything.example."));
    v.push(below(&dn("cachedonly."), &[*rng.pick(&LABELS)]));
    v.retain(|n| n.len <= 200);
    rng.shuffle(&mut v);
    v.truncate(14);
    v.push(below(&dn("aliasonly."), &[*rng.pick(&LABELS)]));
    v.push(below(&dn("aliasonly."), &[*rng.pick(&LABELS)]));
    v
}

const QTYPES: [QueryType; 9] = [
    QueryType::Record(RecordType::A),
    QueryType::Record(RecordType::AAAA),
    QueryType::Record(RecordType::TXT),
    QueryType::Record(RecordType::MX),
    QueryType::Record(RecordType::NS),
    QueryType::Record(RecordType::CNAME),
    QueryType::Record(RecordType::SOA),
    QueryType::Wildcard,
    QueryType::AXFR,
];

fn config_json(cfg: &Config) -> Value {
    json!({
        "zones": cfg.flats.iter().map(|f| json!({
            "apex": show_name(&f.apex), "authoritative": f.soa.is_some(), "soa_minimum": f.soa.as_ref().map(|s| s.minimum),
            "records": f.recs.iter().map(|r| format!("{}{} {} {}", if r.wildcard { "*." } else { "" }, show_name(&r.owner), r.ttl, show_rdata(&r.data))).collect::<Vec<_>>(),
        })).collect::<Vec<_>>(),
        "cache_before": rrs_json(&cfg.cache_seed),
    })
}

/// Follow a CNAME chain through authoritative zones only.  Returns (chain, Some(final set)) when the chain is fully
/// determined by authoritative local data (final set empty = name error / no data), else (chain so far, None).
fn follow_local(flats: &[FlatZone], first: &ResourceRecord, qtype: QueryType) -> (Vec<ResourceRecord>, Option<Vec<ResourceRecord>>) {
    let mut chain = vec![first.clone()];
    let mut seen: BTreeSet<DomainName> = BTreeSet::new();
    seen.insert(first.name.clone());
    let mut cur = match &first.rtype_with_data {
        RecordTypeWithData::CNAME { cname } => cname.clone(),
        _ => return (chain, None),
    };
    loop {
        if !seen.insert(cur.clone()) || chain.len() > 20 {
            return (chain, None);
        }
        let Some(z) = zstar(flats, &cur) else { return (chain, None) };
        if !z.is_authoritative() {
            return (chain, None);
        }
        match z.lookup(&cur, qtype) {
            Some(RefResult::Answer(s)) => return (chain, Some(s)),
            Some(RefResult::NameError) => return (chain, Some(vec![])),
            Some(RefResult::Cname(c)) => {
                cur = match &c.rtype_with_data {
                    RecordTypeWithData::CNAME { cname } => cname.clone(),
                    _ => return (chain, None),
                };
                chain.push(c);
            }
            _ => return (chain, None),
        }
    }
}

#[allow(clippy::too_many_lines)]
fn check(cfg: &Config, mode: &Mode, q: &Question, out: &Outcome, sh: &mut Shard, replay: &dyn Fn() -> Value) {
    let res = match &out.result {
        Err(p) => {
            sh.violation("C01:panic", p.clone(), replay());
            return;
        }
        Ok(r) => r,
    };
    let zs = zstar(&cfg.flats, &q.name);
    let m = mode.name();
    let no_exchange = |sh: &mut Shard, why: &str| {
        if !out.log.is_empty() {
            sh.violation(
                format!("C01:upstream-contacted-for-locally-answered-question:{m}"),
                format!("{} upstream exchanges although {why}", out.log.len()),
                replay(),
            );
        }
    };
    // (vi) a name error only on the word of an authoritative local zone
    if let Ok(ResolvedRecord::AuthoritativeNameError { .. }) = res {
        let ok = zs.is_some_and(|z| z.is_authoritative() && z.lookup(&q.name, q.qtype) == Some(RefResult::NameError));
        if !ok {
            sh.violation(format!("C01:name-error-without-authoritative-zone-saying-so:{m}"), "AuthoritativeNameError returned", replay());
            return;
        }
    }
    // (iv) provenance of every returned record
    if let Ok(r) = res {
        for rec in r.clone().rrs() {
            let Some(zr) = zstar(&cfg.flats, &rec.name) else { continue };
            if !zr.is_authoritative() {
                continue;
            }
            if cuts_of(zr).iter().any(|c| is_suffix(&rec.name, c)) {
                continue; // at or beneath a delegation point: not the zone's to answer
            }
            // the zone's own data for that owner: records at the name, or synthesised from the wildcard
            // at the closest existing ancestor when the name itself does not exist
            let held = if zr.exists(&rec.name) {
                zr.records_at(&rec.name).iter().any(|x| x.rtype_with_data == rec.rtype_with_data)
            } else {
                let mut k = rec.name.labels.len() - 1;
                loop {
                    let anc = verif_harness::refmodel::zone::suffix_of(&rec.name, k);
                    if zr.exists(&anc) {
                        break zr.wildcards_at(&anc, &rec.name).iter().any(|x| x.rtype_with_data == rec.rtype_with_data);
                    }
                    if k <= zr.apex.labels.len() {
                        break false;
                    }
                    k -= 1;
                }
            };
            if !held {
                let origin = match &rec.rtype_with_data {
                    RecordTypeWithData::A { address } if address.octets()[0] == 172 => "cache",
                    RecordTypeWithData::A { address } if address.octets()[0] == 198 => "upstream",
                    RecordTypeWithData::A { address } if address.octets()[0] == 10 => "another-zone",
                    RecordTypeWithData::TXT { octets } if octets.starts_with(b"cache") => "cache",
                    RecordTypeWithData::TXT { octets } if octets.starts_with(b"up") => "upstream",
                    RecordTypeWithData::AAAA { address } if address.segments()[0] == 0xfd16 => "cache",
                    RecordTypeWithData::AAAA { address } if address.segments()[0] == 0x2001 => "upstream",
                    _ => "unknown-source",
                };
                sh.violation(
                    format!("C01:record-for-authoritative-name-not-from-its-zone:{origin}:{m}"),
                    format!("{} is owned by a name of the authoritative zone {} but is not that zone's data", show_rr(&rec), show_name(&zr.apex)),
                    replay(),
                );
                return;
            }
        }
    }
    let Some(z) = zs else { return };
    let Some(want) = z.lookup(&q.name, q.qtype) else { return };
    if z.is_authoritative() {
        let soa = z.soa.as_ref().unwrap().rr(&z.apex);
        match want {
            RefResult::Answer(s) => {
                sh.count("case:authoritative-answer", 1);
                match res {
                    Ok(ResolvedRecord::Authoritative { rrs, soa_rr }) if same_multiset(rrs, &s) && *soa_rr == soa => {}
                    other => {
                        let what = match other {
                            Ok(ResolvedRecord::Authoritative { .. }) => "wrong-records",
                            Ok(ResolvedRecord::NonAuthoritative { .. }) => "not-marked-authoritative",
                            Ok(ResolvedRecord::AuthoritativeNameError { .. }) => "name-error-for-existing-name",
                            Err(_) => "error",
                        };
                        sh.violation(
                            format!("C01:authoritative-zone-answer-differs:{what}:{m}"),
                            format!("zone {} defines {} record(s) for the question; resolver returned something else", show_name(&z.apex), s.len()),
                            replay(),
                        );
                        return;
                    }
                }
                no_exchange(sh, "an authoritative zone answers the question");
            }
            RefResult::NameError => {
                sh.count("case:authoritative-name-error", 1);
                match res {
                    Ok(ResolvedRecord::AuthoritativeNameError { soa_rr }) if *soa_rr == soa => {}
                    _ => {
                        sh.violation(format!("C01:undefined-name-in-authoritative-zone-not-a-name-error:{m}"), format!("zone {} does not define the name", show_name(&z.apex)), replay());
                        return;
                    }
                }
                no_exchange(sh, "an authoritative zone says the name does not exist");
            }
            RefResult::Cname(first) => {
                sh.count("case:authoritative-cname", 1);
                let (chain, fin) = follow_local(&cfg.flats, &first, q.qtype);
                match fin {
                    Some(s) => {
                        let mut want_rrs = chain.clone();
                        let ok = match res {
                            Ok(ResolvedRecord::Authoritative { rrs, .. }) => {
                                rrs.len() == chain.len() + s.len() && rrs[..chain.len()] == chain[..] && same_multiset(&rrs[chain.len()..], &s)
                            }
                            _ => false,
                        };
                        want_rrs.extend(s);
                        if !ok {
                            sh.violation(
                                format!("C01:authoritative-cname-chain-differs:{m}"),
                                format!("chain through authoritative zones should give {}", serde_json::to_string(&rrs_json(&want_rrs)).unwrap_or_default()),
                                replay(),
                            );
                            return;
                        }
                        no_exchange(sh, "the alias chain stays inside authoritative zones");
                    }
                    None => {
                        // T1: the chain leaves authoritative data; the answer must still start with the zone's alias
                        if let Ok(r) = res {
                            let rrs = r.clone().rrs();
                            if rrs.first() != Some(&first) {
                                sh.violation(format!("C01:authoritative-alias-not-first:{m}"), format!("expected the answer to start with {}", show_rr(&first)), replay());
                            }
                        }
                    }
                }
            }
            RefResult::Referral(ns_set) => {
                sh.count("case:delegation", 1);
                if !mode.recursive {
                    match res {
                        Ok(ResolvedRecord::Authoritative { rrs, soa_rr }) if same_multiset(rrs, &ns_set) && *soa_rr == soa => {}
                        _ => {
                            sh.violation("C01:delegation-not-returned:authoritative-only", "expected the delegation's NS set", replay());
                            return;
                        }
                    }
                    no_exchange(sh, "authoritative-only mode");
                } else if mode.forward.is_none() {
                    // the question itself may only be sent to an address learnt for one of the delegation's name servers
                    let hosts: Vec<DomainName> = ns_set
                        .iter()
                        .filter_map(|r| match &r.rtype_with_data {
                            RecordTypeWithData::NS { nsdname } => Some(nsdname.clone()),
                            _ => None,
                        })
                        .collect();
                    let mut learnt: BTreeSet<IpAddr> = BTreeSet::new();
                    // addresses local data could give for those hosts (zones incl. wildcards, pre-seeded cache)
                    for h in &hosts {
                        for t in [RecordType::A, RecordType::AAAA] {
                            if let Some(zh) = zstar(&cfg.flats, h) {
                                if let Some(RefResult::Answer(s)) = zh.lookup(h, QueryType::Record(t)) {
                                    for x in s {
                                        match x.rtype_with_data {
                                            RecordTypeWithData::A { address } => {
                                                learnt.insert(IpAddr::V4(address));
                                            }
                                            RecordTypeWithData::AAAA { address } => {
                                                learnt.insert(IpAddr::V6(address));
                                            }
                                            _ => {}
                                        }
                                    }
                                }
                            }
                        }
                        for c in &cfg.cache_seed {
                            if &c.name == h {
                                match c.rtype_with_data {
                                    RecordTypeWithData::A { address } => {
                                        learnt.insert(IpAddr::V4(address));
                                    }
                                    RecordTypeWithData::AAAA { address } => {
                                        learnt.insert(IpAddr::V6(address));
                                    }
                                    _ => {}
                                }
                            }
                        }
                    }
                    for e in &out.log {
                        let Some(eq) = e.question() else { continue };
                        if eq == q {
                            if !learnt.contains(&e.addr.ip()) {
                                sh.violation(
                                    "C01:delegated-question-sent-elsewhere:recursive",
                                    format!("{} was sent to {} which is not an address of the delegation's name servers {:?}", question_json(q), e.addr, hosts.iter().map(show_name).collect::<Vec<_>>()),
                                    replay(),
                                );
                            }
                            break;
                        }
                        // an address answer for one of the hosts
                        if hosts.contains(&eq.name) {
                            if let Some(bytes) = &e.reply {
                                if let Ok(msg) = Message::from_octets(bytes) {
                                    for a in &msg.answers {
                                        match &a.rtype_with_data {
                                            RecordTypeWithData::A { address } => {
                                                learnt.insert(IpAddr::V4(*address));
                                            }
                                            RecordTypeWithData::AAAA { address } => {
                                                learnt.insert(IpAddr::V6(*address));
                                            }
                                            _ => {}
                                        }
                                    }
                                }
                            }
                        }
                    }
                }
            }
        }
    } else {
        // non-authoritative zone / hosts data
        if let RefResult::Answer(s) = want {
            if !s.is_empty() && q.qtype != QueryType::Wildcard {
                sh.count("case:override-answer", 1);
                match res {
                    Ok(ResolvedRecord::NonAuthoritative { rrs, soa_rr: None }) if same_multiset(rrs, &s) => {}
                    _ => {
                        sh.violation(
                            format!("C01:override-records-not-returned-exactly:{m}"),
                            format!("non-authoritative zone {} holds {} record(s) of the asked name and type", show_name(&z.apex), s.len()),
                            replay(),
                        );
                        return;
                    }
                }
                no_exchange(sh, "a non-authoritative zone holds records of the asked name and type");
            } else if !s.is_empty() {
                sh.count("case:override-any", 1);
                match res {
                    Ok(r) => {
                        let rrs = r.clone().rrs();
                        for x in &s {
                            if !rrs.contains(x) {
                                sh.violation(format!("C01:override-record-missing-from-ANY:{m}"), show_rr(x), replay());
                                return;
                            }
                        }
                        for x in &rrs {
                            let same_kind = s.iter().any(|y| y.name == x.name && y.rtype_with_data.rtype() == x.rtype_with_data.rtype());
                            if same_kind && !s.contains(x) {
                                sh.violation(
                                    format!("C01:cache-or-upstream-record-added-beside-override:{m}"),
                                    format!("{} has the name and type of a record the local zone holds but is not it", show_rr(x)),
                                    replay(),
                                );
                                return;
                            }
                        }
                    }
                    Err(_) => {
                        // for ANY the resolver goes on to ask upstream; if that fails the whole question fails
                        sh.count("case:override-any:error", 1);
                    }
                }
            }
        }
    }
}

fn case(rng: &mut Rng, sim: &mut Sim, sh: &mut Shard, tr: &mut Tracer, coords: Value) {
    let fwd: SocketAddr = "198.51.100.53:53".parse().unwrap();
    let mode = match rng.below(3) {
        0 => Mode::authoritative_only(),
        1 => Mode::recursive(ProtocolMode::OnlyV4, 53),
        _ => Mode::forwarding(fwd),
    };
    let cfg = gen_config(rng, mode.recursive && mode.forward.is_none());
    let names = question_names(rng, &cfg);
    for name in &names {
        // every case starts from the same cache contents ("left by earlier resolutions")
        for _ in 0..2 {
            let qtype = *rng.pick(&QTYPES);
            let q = question(name, qtype);
            let cache = SharedCache::new();
            for r in &cfg.cache_seed {
                cache.insert(r);
            }
            sh.eval();
            tr.begin(|| json!({"coords": coords, "question": question_json(&q), "mode": mode.name()}));
            let out = sim.resolve(upstream_responder(mode.forward.is_some()), &mode, &cfg.zones, &cache, &q);
            tr.end();
            let replay = || {
                json!({"kind": "local-vs-cache-vs-upstream", "coords": coords, "mode": mode.name(), "question": question_json(&q), "configuration": config_json(&cfg),
                       "result": result_json(&out.result), "exchanges": log_json(&out.log)})
            };
            check(&cfg, &mode, &q, &out, sh, &replay);
            sh.count(&format!("mode:{}", mode.name()), 1);
            if zstar(&cfg.flats, name).is_some() {
                let mut h = fnv(format!("{:?}", config_json(&cfg)).as_bytes());
                h = fnv_mix(h, fnv(show_name(name).as_bytes()));
                h = fnv_mix(h, u64::from(u16::from(qtype)));
                sh.nontrivial(fnv_mix(h, fnv(mode.name().as_bytes())));
            }
            if sh.want_sample() && !out.log.is_empty() && cfg.flats.len() >= 2 {
                sh.sample(replay());
            }
        }
    }
}

pub fn run(args: Args) {
    let mut run = Run::new(
        args.clone(),
        "exploration",
        "configurations: 1..4 zones over apexes {., test., a.test., b.a.test., other.} (nested), non-root zones authoritative, the \
         root authoritative or not (hosts-style), <= 12 records each over a three-label alphabet: A/AAAA/TXT/MX, CNAMEs (in-zone, \
         cross-zone, dangling, into cache-only names), wildcards, delegations, empty non-terminals, 0.0.0.0 blocklist entries; the \
         cache pre-seeded with conflicting records (incl. CNAME and NS) for names the zones own and with cache-only names; an \
         upstream (root server / forwarder) that answers every question with upstream-tagged data; questions over owners, names \
         below and beside them, undefined names, names outside every zone x {A AAAA TXT MX NS CNAME SOA ANY AXFR}; \
         authoritative-only, recursive and forwarding mode. Oracle: most specific zone (own computation) + the C02 reference \
         lookup decide what must come back (exact records, AA, SOA, name error, no upstream exchange) and every returned record \
         owned by an authoritative zone's name must be that zone's data (provenance by unique RDATA tags). non-trivial = question \
         whose name lies in a configured zone; distinct = distinct (configuration, question, mode).",
    );
    run.assume("T1: AA is not demanded once a CNAME chain that starts in an authoritative zone continues into non-authoritative data");
    run.assume("D1: no data beneath (or wildcard at) a delegation point; which SOA accompanies a cross-zone chain is not pinned");
    let hub = TraceHub::new(&args, THREADS);
    hub.start_hang_monitor(Duration::from_secs(120));
    let n = args.size(200_000, 8_000_000);
    let seed = args.seed;
    run.parallel(THREADS, STACK, |ti, sh| {
        freeze_cache_clock();
        let mut sim = Sim::new();
        let mut tr = hub.tracer(ti);
        let mut rng = Rng::new(seed).fork(0x0100 + ti as u64);
        for k in 0..(n / THREADS as u64) {
            case(&mut rng, &mut sim, sh, &mut tr, json!({"thread": ti, "k": k}));
        }
    });
    run.finish(500);
}

use verif_harness::run::Args;
pub fn run(_args: Args) {
    println!("INCONCLUSIVE not built yet");
    std::process::exit(2);
}

//! Engine E5: the resolver driven through a fake network (hook H1) under tokio's
//! paused clock.  Serves C01, C06, C07, C08, C10, C18.

use dns_resolver::cache::{verif_clock, SharedCache};
use dns_resolver::util::nameserver::verif::Transport;
use dns_resolver::util::types::{ProtocolMode, ResolutionError, ResolvedRecord};
use dns_types::protocol::types::*;
use dns_types::zones::types::{Zone, Zones};
use serde_json::{json, Value};
use std::collections::{BTreeMap, BTreeSet};
use std::net::{IpAddr, Ipv4Addr, SocketAddr};
use std::sync::{Arc, Mutex};
use std::time::Duration;

use verif_harness::crash::{supervise, TraceHub, Tracer};
use verif_harness::names::*;
use verif_harness::netsim::*;
use verif_harness::refmodel::zone::{is_suffix, same_name};
use verif_harness::rng::{fnv, fnv_mix, Rng};
use verif_harness::run::{hex, quiet_panics, truncate, Args, Run, Shard};
use verif_harness::universe::{self, GenCfg, Universe};

mod c01;
mod c06;
mod c10;

const THREADS: usize = 16;
const STACK: usize = 2 * 1024 * 1024;

fn main() {
    let args = Args::parse();
    if let Some(p) = args.replay.clone() {
        println!("replay files of the network engine carry the universe, the questions and the exchange log in full; re-run with the seed recorded in the file: {}", p.display());
        return;
    }
    let crash_is_violation = matches!(args.prop.as_str(), "C08" | "C10");
    let level = if args.prop == "C08" { "fault_enumeration" } else { "exploration" };
    if !args.worker {
        supervise(&args, level, Duration::from_secs(args.tier.pick(1200, 10800)), crash_is_violation);
    }
    quiet_panics();
    match args.prop.as_str() {
        "C07" => c07(args),
        "C18" => c18(args),
        "C08" => c08(args),
        "C01" => c01::run(args),
        "C06" => c06::run(args),
        "C10" => c10::run(args),
        other => {
            eprintln!("e_netsim does not serve {other}");
            std::process::exit(2);
        }
    }
}

// ---------------------------------------------------------------------------
// shared helpers

pub fn freeze_cache_clock() {
    verif_clock::set_thread_nanos(Some(1_000_000_000));
}

pub fn protocol_name(p: ProtocolMode) -> &'static str {
    match p {
        ProtocolMode::OnlyV4 => "only-v4",
        ProtocolMode::PreferV4 => "prefer-v4",
        ProtocolMode::PreferV6 => "prefer-v6",
        ProtocolMode::OnlyV6 => "only-v6",
    }
}

pub fn result_json(r: &Result<Result<ResolvedRecord, ResolutionError>, String>) -> Value {
    match r {
        Err(p) => json!({"panic": p}),
        Ok(Err(e)) => json!({"error": format!("{e}")}),
        Ok(Ok(ResolvedRecord::Authoritative { rrs, soa_rr })) => json!({"authoritative": rrs_json(rrs), "soa": show_rr(soa_rr)}),
        Ok(Ok(ResolvedRecord::AuthoritativeNameError { soa_rr })) => json!({"authoritative_name_error": show_rr(soa_rr)}),
        Ok(Ok(ResolvedRecord::NonAuthoritative { rrs, soa_rr })) => json!({"non_authoritative": rrs_json(rrs), "soa": soa_rr.as_ref().map(show_rr)}),
    }
}

pub fn log_json(log: &[Exchange]) -> Value {
    Value::Array(
        log.iter()
            .map(|e| {
                json!({
                    "n": e.index,
                    "transport": format!("{:?}", e.transport),
                    "to": e.addr.to_string(),
                    "question": e.question().map(question_json),
                    "what": e.label,
                    "took_ms": e.duration().map(|d| d.as_millis() as u64),
                })
            })
            .collect(),
    )
}

/// A responder that serves the universe faithfully.
pub fn universe_responder(u: Arc<Universe>) -> Responder {
    Box::new(move |ctx: &Ctx| {
        let Some(req) = ctx.request else {
            return (Action::Fail, "unparseable-request".into());
        };
        let Some(q) = req.questions.first() else {
            return (Action::Fail, "no-question".into());
        };
        let r = u.serve(ctx.addr.ip(), q);
        let m = reply_to(req, r.rcode, r.aa, r.answers, r.authority, r.additional);
        (Action::Reply(encode(&m)), format!("{}@depth{}", r.kind, r.zone_depth.map_or(-1, |d| d as i64)))
    })
}

fn key3(rr: &ResourceRecord) -> (DomainName, RecordTypeWithData) {
    (rr.name.clone(), rr.rtype_with_data.clone())
}

// ---------------------------------------------------------------------------
// C07

struct C07Case {
    u: Arc<Universe>,
    mode: Mode,
    questions: Vec<Question>,
}

fn gen_c07_case(rng: &mut Rng) -> C07Case {
    let protocol = *rng.pick(&[ProtocolMode::OnlyV4, ProtocolMode::PreferV4, ProtocolMode::PreferV6, ProtocolMode::OnlyV6]);
    let (v4_only, v6_only) = match protocol {
        ProtocolMode::OnlyV4 => (rng.below(3), 0),
        ProtocolMode::OnlyV6 => (0, rng.below(3)),
        _ => (rng.below(2), rng.below(2)),
    };
    let cfg = GenCfg {
        max_depth: rng.range(1, 5),
        max_zones: rng.range(2, 12),
        v4_only,
        v6_only,
        allow_glueless: rng.chance(3, 4),
        cname_chains: rng.below(4),
    };
    let mut u = universe::generate(rng, &cfg);
    let n = rng.range(1, 6);
    let mut questions = universe::questions(rng, &u, n);
    // one case in twelve: a ladder of 17..22 alias links, each in a zone whose only name server has to be looked up
    // through upstream first (no glue) - a long run of sibling sub-resolutions inside one request
    if matches!(protocol, ProtocolMode::OnlyV4 | ProtocolMode::PreferV4) && rng.chance(1, 12) {
        let k = rng.range(17, 22);
        let qname = universe::add_ladder(&mut u, k);
        let at = rng.below(questions.len() + 1);
        questions.insert(at, question(&qname, qt(RecordType::A)));
    }
    // one case in ten: two sibling zones hosting each other's only name server, reachable through the parent's glue alone
    if rng.chance(1, 10) {
        let dual = !matches!(protocol, ProtocolMode::OnlyV4);
        if dual || matches!(protocol, ProtocolMode::OnlyV4 | ProtocolMode::PreferV4) {
            for qname in universe::add_mutual(&mut u, dual) {
                if rng.chance(2, 3) {
                    let at = rng.below(questions.len() + 1);
                    questions.insert(at, question(&qname, qt(RecordType::A)));
                }
            }
        }
    }
    C07Case {
        u: Arc::new(u),
        mode: Mode::recursive(protocol, *rng.pick(&[53u16, 53, 5353, 1, 65535])),
        questions,
    }
}

/// Split an answer into its leading CNAME records and the rest.
fn split_chain(rrs: &[ResourceRecord]) -> (Vec<ResourceRecord>, Vec<ResourceRecord>) {
    let mut i = 0;
    while i < rrs.len() && matches!(rrs[i].rtype_with_data, RecordTypeWithData::CNAME { .. }) {
        i += 1;
    }
    (rrs[..i].to_vec(), rrs[i..].to_vec())
}

fn same_ignoring_ttl_le(got: &[ResourceRecord], want: &[ResourceRecord]) -> bool {
    if got.len() != want.len() {
        return false;
    }
    let mut used = vec![false; want.len()];
    'outer: for g in got {
        for (i, w) in want.iter().enumerate() {
            if !used[i] && g.name == w.name && g.rtype_with_data == w.rtype_with_data && g.rclass == w.rclass && g.ttl <= w.ttl {
                used[i] = true;
                continue 'outer;
            }
        }
        return false;
    }
    true
}

fn c07_case(rng: &mut Rng, sim: &mut Sim, sh: &mut Shard, tr: &mut Tracer, coords: Value) {
    let case = gen_c07_case(rng);
    let mut zones = Zones::new();
    let hints = case.u.hints_zone();
    zones.insert(hints.clone());
    let cache = SharedCache::new();
    let mut history = Vec::new();
    for q in &case.questions {
        // questions the local hints answer themselves are not questions about the hierarchy
        if matches!(hints.resolve(&q.name, q.qtype), Some(dns_types::zones::types::ZoneResult::Answer { rrs }) if !rrs.is_empty()) {
            continue;
        }
        sh.eval();
        tr.begin(|| json!({"coords": coords, "question": question_json(q)}));
        let out = sim.resolve(universe_responder(case.u.clone()), &case.mode, &zones, &cache, q);
        tr.end();
        let want = case.u.expected(&q.name, q.qtype);
        let replay = |history: &Vec<Value>| {
            json!({"kind": "universe-resolution", "coords": coords, "protocol_mode": protocol_name(case.mode.protocol), "universe": case.u.describe(),
                   "earlier_questions": history, "question": question_json(q), "result": result_json(&out.result), "exchanges": log_json(&out.log),
                   "expected": {"chain": rrs_json(&want.chain), "finals": rrs_json(&want.finals), "soa": want.soa.as_ref().map(show_rr)}})
        };
        sh.count("exchanges", out.log.len() as u64);
        if show_name(&q.name) == "a.lad0." {
            sh.count("ladder:questions", 1);
            sh.count_max("ladder:max-exchanges-in-one-resolution", out.log.len() as u64);
            if matches!(&out.result, Ok(Ok(_))) {
                sh.count("ladder:answered", 1);
            }
        }
        if out.log.len() >= 2 {
            let mut h = fnv(show_name(&q.name).as_bytes());
            for e in &out.log {
                h = fnv_mix(h, fnv(e.label.as_bytes()) ^ fnv(e.addr.to_string().as_bytes()));
            }
            sh.nontrivial(fnv_mix(h, u64::from(u16::from(q.qtype))));
        }
        for e in &out.log {
            let k = e.label.split('@').next().unwrap_or("").to_string();
            sh.count(&format!("reply:{k}"), 1);
        }
        match &out.result {
            Err(p) => sh.violation("C07:panic", format!("resolve panicked: {p}"), replay(&history)),
            Ok(Err(e)) => sh.violation(
                format!("C07:error-in-consistent-universe:{}", format!("{e:?}").split(|c: char| !c.is_ascii_alphanumeric()).next().unwrap_or("")),
                format!("recursive resolution of {} failed in a consistent hierarchy: {e}", question_json(q)),
                replay(&history),
            ),
            Ok(Ok(res)) => {
                let soa = res.soa_rr().cloned();
                let rrs = res.clone().rrs();
                let ok = if q.qtype == qt(RecordType::CNAME) && !want.finals.is_empty() && matches!(want.finals[0].rtype_with_data, RecordTypeWithData::CNAME { .. }) {
                    // T4: any prefix of the alias chain that starts with the qname's CNAME
                    let full = case.u.expected(&q.name, qt(RecordType::A)).chain;
                    !rrs.is_empty() && rrs.len() <= full.len() && rrs.iter().zip(full.iter()).all(|(g, w)| g.name == w.name && g.rtype_with_data == w.rtype_with_data && g.ttl <= w.ttl)
                } else {
                    let (chain, rest) = split_chain(&rrs);
                    let chain_ok = chain.len() == want.chain.len() && chain.iter().zip(want.chain.iter()).all(|(g, w)| g.name == w.name && g.rtype_with_data == w.rtype_with_data && g.ttl <= w.ttl);
                    let finals_ok = same_ignoring_ttl_le(&rest, &want.finals);
                    let soa_ok = if want.finals.is_empty() {
                        match (&soa, &want.soa) {
                            (Some(g), Some(w)) => g.name == w.name && g.rtype_with_data == w.rtype_with_data,
                            _ => false,
                        }
                    } else {
                        true
                    };
                    if !chain_ok {
                        sh.count("mismatch:chain", 1);
                    }
                    chain_ok && finals_ok && soa_ok
                };
                if !ok {
                    let what = if rrs.is_empty() && !want.finals.is_empty() {
                        "answer-empty"
                    } else if want.finals.is_empty() && soa.is_none() {
                        "negative-answer-without-soa"
                    } else if want.finals.is_empty() {
                        "negative-answer-differs"
                    } else {
                        "records-differ"
                    };
                    sh.violation(
                        format!("C07:{what}"),
                        format!("recursive answer for {} differs from what the authoritative servers hold", question_json(q)),
                        replay(&history),
                    );
                }
                if matches!(res, ResolvedRecord::AuthoritativeNameError { .. } | ResolvedRecord::Authoritative { .. }) {
                    sh.violation("C07:authoritative-claim-for-upstream-data", "result marked authoritative although no local zone is authoritative", replay(&history));
                }
            }
        }
        // strictly deeper referrals: per question, the zone depth of the server asked increases
        let mut last: BTreeMap<String, i64> = BTreeMap::new();
        let mut last_addr: BTreeMap<String, SocketAddr> = BTreeMap::new();
        for e in &out.log {
            let Some(eq) = e.question() else { continue };
            // only the user's own question: a name-server address lookup may legitimately be started afresh
            // (e.g. its negative result is not cached), which restarts from the best servers known
            if eq != q {
                continue;
            }
            let depth: i64 = e.label.rsplit("@depth").next().and_then(|d| d.parse().ok()).unwrap_or(-1);
            let key = format!("{} {}", show_name(&eq.name), eq.qtype);
            // the TCP repeat of a UDP exchange (truncated reply) goes to the same server: one query, not two
            if e.transport == Transport::Tcp && last_addr.get(&key) == Some(&e.addr) {
                continue;
            }
            last_addr.insert(key.clone(), e.addr);
            if let Some(prev) = last.get(&key) {
                if depth <= *prev {
                    sh.violation(
                        "C07:referral-not-strictly-deeper",
                        format!("question {key} was sent to a server for a zone of depth {depth} after one of depth {prev}"),
                        replay(&history),
                    );
                }
            }
            last.insert(key, depth);
        }
        c18_monitor(&case.u, &case.mode, q, &out.log, &zones, &cache, sh, &replay(&history), false);
        history.push(json!({"question": question_json(q), "result": result_json(&out.result)}));
    }
    if sh.want_sample() && !history.is_empty() {
        sh.sample(json!({"protocol_mode": protocol_name(case.mode.protocol), "universe": case.u.describe(), "questions": history}));
    }
}

fn c07(args: Args) {
    let mut run = Run::new(
        args.clone(),
        "exploration",
        "generated universes: 2..12 zones, depth 1..5 below the root hints, 1..3 name servers per zone, in-bailiwick with glue \
         or hosted in an earlier zone with or without glue, hosts v4-only / v6-only / dual as the protocol mode allows, apexes \
         one or two labels below the parent (empty non-terminal), A/AAAA/TXT/MX data, alias chains of 1..8 links within and \
         across zones ending at existing or missing names; fake authoritative servers (RFC 1034 4.3.2) answer through the \
         transport hook; 1..6 questions per universe share one cache (existing and missing names and types, NS hosts, apexes, \
         aliases; qtypes A AAAA TXT MX NS SOA CNAME); all four protocol modes. Each result compared with the globally computed \
         expectation (chain sequence, final multiset with TTL <=, SOA for negative answers); exchange log checked for strictly \
         deeper referrals. non-trivial = resolution that needed at least 2 upstream exchanges; distinct = distinct (question, \
         exchange sequence) hashes.",
    );
    run.assume("T4: one address per family per NS host; glue equals the child's own records; qtype CNAME on a multi-link chain may return any prefix");
    run.assume("cache clock frozen (TTLs >= 60): expiry is the business of C05");
    let hub = TraceHub::new(&args, THREADS);
    hub.start_hang_monitor(Duration::from_secs(30));
    let n = args.size(1_000_000, 40_000_000);
    let seed = args.seed;
    run.parallel(THREADS, STACK, |ti, sh| {
        freeze_cache_clock();
        let mut sim = Sim::new();
        let mut tr = hub.tracer(ti);
        let mut rng = Rng::new(seed).fork(0x0700 + ti as u64);
        for k in 0..(n / THREADS as u64) {
            c07_case(&mut rng, &mut sim, sh, &mut tr, json!({"thread": ti, "k": k}));
        }
    });
    run.finish(500);
}

// ---------------------------------------------------------------------------
// C18

/// Monitor over one resolution's exchange log.  `strict_forward`: in forwarding mode every exchange must go to the forwarder.
#[allow(clippy::too_many_arguments)]
pub fn c18_monitor(u: &Universe, mode: &Mode, top: &Question, log: &[Exchange], zones: &Zones, cache: &SharedCache, sh: &mut Shard, replay: &Value, report: bool) {
    // C07 runs call this with report=false only to collect counters cheaply; the C18 engine reports
    let prop_active = report;
    let mut first_addr_question: BTreeMap<DomainName, RecordType> = BTreeMap::new();
    // names the user's own question leads to through aliases: asking about those is not a name-server lookup
    let mut on_user_chain: BTreeSet<DomainName> = BTreeSet::new();
    on_user_chain.insert(top.name.clone());
    for r in &u.expected(&top.name, top.qtype).chain {
        if let RecordTypeWithData::CNAME { cname } = &r.rtype_with_data {
            on_user_chain.insert(cname.clone());
        }
    }
    for e in log {
        sh.count("c18:exchanges-checked", 1);
        if let Some(f) = mode.forward {
            if e.addr != f && prop_active {
                sh.violation("C18:forwarding-mode-contacted-other-address", format!("exchange to {} (forwarder is {f})", e.addr), replay.clone());
            }
            continue;
        }
        if e.addr.port() != mode.port && prop_active {
            sh.violation("C18:wrong-upstream-port", format!("exchange to {} but the configured upstream port is {}", e.addr, mode.port), replay.clone());
        }
        let v4 = e.addr.is_ipv4();
        match mode.protocol {
            ProtocolMode::OnlyV4 if !v4 && prop_active => sh.violation("C18:only-v4-contacted-v6", format!("exchange to {}", e.addr), replay.clone()),
            ProtocolMode::OnlyV6 if v4 && prop_active => sh.violation("C18:only-v6-contacted-v4", format!("exchange to {}", e.addr), replay.clone()),
            _ => {}
        }
        // order of address questions per NS host (sub-resolutions only)
        if let Some(q) = e.question() {
            if q != top && !on_user_chain.contains(&q.name) {
                if let QueryType::Record(t @ (RecordType::A | RecordType::AAAA)) = q.qtype {
                    if u.host_by_name(&q.name).is_some() && !first_addr_question.contains_key(&q.name) {
                        first_addr_question.insert(q.name.clone(), t);
                        let wrong = match mode.protocol {
                            ProtocolMode::OnlyV4 | ProtocolMode::PreferV4 => t != RecordType::A,
                            ProtocolMode::OnlyV6 | ProtocolMode::PreferV6 => t != RecordType::AAAA,
                        };
                        // a top-level question about the same host for the other family may already have cached it: then
                        // there is nothing to ask for the preferred family and the first *upstream* question is the other one
                        let preferred = match mode.protocol {
                            ProtocolMode::OnlyV4 | ProtocolMode::PreferV4 => RecordType::A,
                            _ => RecordType::AAAA,
                        };
                        let preferred_known = holds_address(zones, cache, &q.name, preferred);
                        sh.count("c18:ns-address-lookups-observed", 1);
                        if wrong && !preferred_known && prop_active {
                            sh.violation(
                                "C18:ns-address-lookup-asks-other-family-first",
                                format!("first upstream address question for name server {} was {t}", show_name(&q.name)),
                                replay.clone(),
                            );
                        }
                    }
                }
            }
        }
    }
    let _ = (is_suffix as fn(&DomainName, &DomainName) -> bool, same_name as fn(&DomainName, &DomainName) -> bool);
}

/// Do the zones or the (unexpired) cache hold an address of this family for the host — read without touching LRU state.
pub fn holds_address(zones: &Zones, cache: &SharedCache, host: &DomainName, t: RecordType) -> bool {
    if let Some(z) = zones.get(host) {
        if let Some(dns_types::zones::types::ZoneResult::Answer { rrs }) = z.resolve(host, qt(t)) {
            if !rrs.is_empty() {
                return true;
            }
        }
    }
    let snap = cache.verif_snapshot();
    let now = verif_clock::Instant::now();
    snap.entries.iter().any(|(n, ty, _, exp)| n == host && *ty == t && *exp > now)
}

struct C18State {
    violations: Vec<(String, String)>,
    exchanges: u64,
    prefer_checks: u64,
}

/// Responder wrapper that checks, at exchange time, "the other family is never used while the preferred one is held".
fn c18_responder(u: Arc<Universe>, mode: Mode, zones: Arc<Zones>, cache: SharedCache, st: Arc<Mutex<C18State>>) -> Responder {
    let mut inner = universe_responder(u.clone());
    Box::new(move |ctx: &Ctx| {
        {
            let mut s = st.lock().unwrap();
            s.exchanges += 1;
            if mode.forward.is_none() {
                if let Some(h) = u.host_by_addr(ctx.addr.ip()) {
                    let (preferred, other_used) = match mode.protocol {
                        ProtocolMode::PreferV4 => (RecordType::A, ctx.addr.is_ipv6()),
                        ProtocolMode::PreferV6 => (RecordType::AAAA, ctx.addr.is_ipv4()),
                        _ => (RecordType::A, false),
                    };
                    if matches!(mode.protocol, ProtocolMode::PreferV4 | ProtocolMode::PreferV6) {
                        s.prefer_checks += 1;
                        if other_used && holds_address(&zones, &cache, &u.hosts[h].name, preferred) {
                            s.violations.push((
                                "C18:other-family-used-while-preferred-address-held".into(),
                                format!("contacted {} at {} although a {preferred} address of it was held", show_name(&u.hosts[h].name), ctx.addr),
                            ));
                        }
                    }
                } else {
                    s.violations.push(("C18:contacted-unknown-address".into(), format!("exchange to {} which is no name server of the universe", ctx.addr)));
                }
            }
        }
        inner(ctx)
    })
}

fn c18_case(rng: &mut Rng, sim: &mut Sim, sh: &mut Shard, tr: &mut Tracer, coords: Value) {
    let protocol = *rng.pick(&[ProtocolMode::OnlyV4, ProtocolMode::PreferV4, ProtocolMode::PreferV6, ProtocolMode::OnlyV6]);
    // any mix of host families: under only-X some servers are simply unreachable, which is fine for this property
    let cfg = GenCfg {
        max_depth: rng.range(1, 4),
        max_zones: rng.range(2, 9),
        v4_only: rng.below(2),
        v6_only: rng.below(2),
        allow_glueless: true,
        cname_chains: rng.below(3),
    };
    let u = Arc::new(universe::generate(rng, &cfg));
    let forwarding = rng.chance(1, 6);
    let port = *rng.pick(&[1u16, 53, 5353, 65535]);
    let mode = if forwarding {
        let ip: IpAddr = if rng.bool() { IpAddr::V4(Ipv4Addr::new(198, 51, 100, 7)) } else { "2001:db8:ffff::7".parse().unwrap() };
        Mode::forwarding(SocketAddr::new(ip, *rng.pick(&[53u16, 5300])))
    } else {
        Mode::recursive(protocol, port)
    };
    let mut zs = Zones::new();
    zs.insert(u.hints_zone());
    let zones = Arc::new(zs);
    let cache = SharedCache::new();
    // some addresses known beforehand (learnt "earlier"): pre-seed the cache with one family of a few hosts
    for h in &u.hosts {
        if rng.chance(1, 4) {
            if let (Some(a4), true) = (h.v4, rng.bool()) {
                cache.insert(&rr(&h.name, a(a4), 300));
            } else if let Some(a6) = h.v6 {
                cache.insert(&rr(&h.name, aaaa(a6), 300));
            }
        }
    }
    let n = rng.range(1, 5);
    let qs = universe::questions(rng, &u, n);
    let mut history = Vec::new();
    for q in &qs {
        sh.eval();
        let st = Arc::new(Mutex::new(C18State {
            violations: Vec::new(),
            exchanges: 0,
            prefer_checks: 0,
        }));
        let responder: Responder = if forwarding {
            // the forwarder answers everything with the universe's expectation (it is a full resolver)
            let u2 = u.clone();
            Box::new(move |ctx: &Ctx| {
                let Some(req) = ctx.request else { return (Action::Fail, "bad".into()) };
                let q = &req.questions[0];
                let e = u2.expected(&q.name, q.qtype);
                let mut answers = e.chain.clone();
                answers.extend(e.finals.clone());
                let auth = e.soa.clone().map(|s| vec![s]).unwrap_or_default();
                (Action::Reply(encode(&reply_to(req, Rcode::NoError, false, answers, auth, vec![]))), "forwarder".into())
            })
        } else {
            c18_responder(u.clone(), mode.clone(), zones.clone(), cache.clone(), st.clone())
        };
        tr.begin(|| json!({"coords": coords, "question": question_json(q)}));
        let out = sim.resolve(responder, &mode, &zones, &cache, q);
        tr.end();
        let replay = json!({"kind": "universe-resolution", "coords": coords, "mode": mode.name(), "protocol_mode": protocol_name(mode.protocol), "port": mode.port,
                            "forwarder": mode.forward.map(|f| f.to_string()), "universe": u.describe(), "earlier_questions": history,
                            "question": question_json(q), "result": result_json(&out.result), "exchanges": log_json(&out.log)});
        if let Err(p) = &out.result {
            sh.count("panics(see C08)", 1);
            let _ = p;
        }
        c18_monitor(&u, &mode, q, &out.log, &zones, &cache, sh, &replay, true);
        let s = st.lock().unwrap();
        for (sig, what) in &s.violations {
            sh.violation(sig.clone(), what.clone(), replay.clone());
        }
        sh.count("prefer-mode-exchanges-checked-against-held-addresses", s.prefer_checks);
        if !out.log.is_empty() {
            let mut h = fnv(mode.name().as_bytes());
            for e in &out.log {
                h = fnv_mix(h, fnv(e.addr.to_string().as_bytes()));
            }
            sh.nontrivial(fnv_mix(h, fnv(show_name(&q.name).as_bytes())));
            sh.count(&format!("mode:{}{}", mode.name(), if forwarding { String::new() } else { format!(":{}", protocol_name(protocol)) }), 1);
        }
        history.push(json!({"question": question_json(q), "exchanges": out.log.len()}));
    }
    if sh.want_sample() && !history.is_empty() {
        sh.sample(json!({"mode": mode.name(), "protocol_mode": protocol_name(mode.protocol), "port": mode.port, "hosts": u.describe()["hosts"], "questions": history}));
    }
}

fn c18(args: Args) {
    let mut run = Run::new(
        args.clone(),
        "exploration",
        "generated universes (2..9 zones) whose name servers are v4-only, v6-only or dual, addresses learnt from hints, glue, a \
         pre-seeded cache or recursive lookup; four protocol modes x ports {1,53,5353,65535}; one run in six in forwarding mode \
         (forwarder on v4 or v6). Monitors on the exchange log: every destination port = configured port; only-v4 / only-v6 never \
         contact the other family; under prefer-X, at the moment of each exchange to a host's other-family address, zones and \
         unexpired cache (read through the read-only snapshot hook) hold no X address of that host; the first upstream address \
         question of a name-server lookup is for the preferred family; forwarding mode talks to the forwarder only. \
         non-trivial = resolution with at least one upstream exchange; distinct = distinct (mode, destination sequence, qname).",
    );
    run.assume("destination address -> name server is a function (every generated host has unique addresses)");
    let hub = TraceHub::new(&args, THREADS);
    hub.start_hang_monitor(Duration::from_secs(30));
    let n = args.size(800_000, 30_000_000);
    let seed = args.seed;
    run.parallel(THREADS, STACK, |ti, sh| {
        freeze_cache_clock();
        let mut sim = Sim::new();
        let mut tr = hub.tracer(ti);
        let mut rng = Rng::new(seed).fork(0x1800 + ti as u64);
        for k in 0..(n / THREADS as u64) {
            c18_case(&mut rng, &mut sim, sh, &mut tr, json!({"thread": ti, "k": k}));
        }
    });
    run.finish(500);
}

// ---------------------------------------------------------------------------
// C08

#[derive(Copy, Clone, Debug, PartialEq, Eq)]
pub enum Fault {
    Ok,
    Drop,
    Delay4900,
    Delay5100,
    Garbage,
    Cut,
    WrongId,
    NotAResponse,
    Truncated,
    WrongQuestion,
    ServFail,
    EmptyNoError,
    // not part of the enumerated dozen: used by random plans
    Delay100,
    Delay30s,
    Delay70s,
    FormErr,
    NotImp,
    Refused,
    ConnectionRefused,
    LameReferral,
    UpwardReferral,
    SelfAlias,
    /// one reply whose answer section aliases the question into a cycle that does not contain the question name
    AliasCycleInReply,
    /// ... into a target that aliases itself
    AliasToSelfLoopInReply,
    /// a referral whose glue names a host through an alias cycle
    GlueAliasCycle,
}

pub const PRINCIPAL: [Fault; 12] = [
    Fault::Ok,
    Fault::Drop,
    Fault::Delay4900,
    Fault::Delay5100,
    Fault::Garbage,
    Fault::Cut,
    Fault::WrongId,
    Fault::NotAResponse,
    Fault::Truncated,
    Fault::WrongQuestion,
    Fault::ServFail,
    Fault::EmptyNoError,
];

pub const ALL_FAULTS: [Fault; 25] = [
    Fault::AliasCycleInReply,
    Fault::AliasToSelfLoopInReply,
    Fault::GlueAliasCycle,
    Fault::Ok,
    Fault::Drop,
    Fault::Delay4900,
    Fault::Delay5100,
    Fault::Garbage,
    Fault::Cut,
    Fault::WrongId,
    Fault::NotAResponse,
    Fault::Truncated,
    Fault::WrongQuestion,
    Fault::ServFail,
    Fault::EmptyNoError,
    Fault::Delay100,
    Fault::Delay30s,
    Fault::Delay70s,
    Fault::FormErr,
    Fault::NotImp,
    Fault::Refused,
    Fault::ConnectionRefused,
    Fault::LameReferral,
    Fault::UpwardReferral,
    Fault::SelfAlias,
];

/// Everything "supplied" to the resolver: records of every reply sent so far (as the resolver's transport would parse it).
#[derive(Default)]
pub struct Supplied {
    pub records: BTreeSet<(DomainName, RecordTypeWithData)>,
}

impl Supplied {
    pub fn add_bytes(&mut self, transport: Transport, bytes: &[u8]) {
        let parsed = match transport {
            Transport::Udp => {
                let mut buf = vec![0u8; 512];
                let n = bytes.len().min(512);
                buf[..n].copy_from_slice(&bytes[..n]);
                Message::from_octets(&buf)
            }
            Transport::Tcp => Message::from_octets(bytes),
        };
        if let Ok(m) = parsed {
            for r in m.answers.iter().chain(&m.authority).chain(&m.additional) {
                self.records.insert(key3(r));
            }
        }
    }
}

/// Apply a fault to the honest reply.
pub fn apply_fault(f: Fault, req: &Message, honest: &universe::ServerReply, rng: &mut Rng) -> Action {
    let honest_msg = reply_to(req, honest.rcode, honest.aa, honest.answers.clone(), honest.authority.clone(), honest.additional.clone());
    let with_rcode = |rc: Rcode| encode(&reply_to(req, rc, false, vec![], vec![], vec![]));
    match f {
        Fault::Ok => Action::Reply(encode(&honest_msg)),
        Fault::Drop => Action::Silence,
        Fault::Delay100 => Action::ReplyAfter(Duration::from_millis(100), encode(&honest_msg)),
        Fault::Delay4900 => Action::ReplyAfter(Duration::from_millis(4900), encode(&honest_msg)),
        Fault::Delay5100 => Action::ReplyAfter(Duration::from_millis(5100), encode(&honest_msg)),
        Fault::Delay30s => Action::ReplyAfter(Duration::from_secs(30), encode(&honest_msg)),
        Fault::Delay70s => Action::ReplyAfter(Duration::from_secs(70), encode(&honest_msg)),
        Fault::Garbage => {
            let n = rng.range(0, 600);
            Action::Reply(rng.bytes(n))
        }
        Fault::Cut => {
            let b = encode(&honest_msg);
            let n = rng.below(b.len() + 1);
            Action::Reply(b[..n].to_vec())
        }
        Fault::WrongId => {
            let mut m = honest_msg;
            m.header.id = m.header.id.wrapping_add(1 + rng.below(1000) as u16);
            Action::Reply(encode(&m))
        }
        Fault::NotAResponse => {
            let mut m = honest_msg;
            m.header.is_response = false;
            Action::Reply(encode(&m))
        }
        Fault::Truncated => {
            let mut m = honest_msg;
            m.header.is_truncated = true;
            Action::Reply(encode(&m))
        }
        Fault::WrongQuestion => {
            let mut m = honest_msg;
            if let Some(q) = m.questions.first_mut() {
                q.name = dn("wrong.question.invalid.");
            }
            Action::Reply(encode(&m))
        }
        Fault::ServFail => Action::Reply(with_rcode(Rcode::ServerFailure)),
        Fault::FormErr => Action::Reply(with_rcode(Rcode::FormatError)),
        Fault::NotImp => Action::Reply(with_rcode(Rcode::NotImplemented)),
        Fault::Refused => Action::Reply(with_rcode(Rcode::Refused)),
        Fault::EmptyNoError => Action::Reply(with_rcode(Rcode::NoError)),
        Fault::ConnectionRefused => Action::Fail,
        Fault::LameReferral => {
            // a referral to the zone the server was asked as (same depth), or to nothing useful
            let q = &req.questions[0];
            let k = q.name.labels.len().saturating_sub(1).max(1);
            let owner = verif_harness::refmodel::zone::suffix_of(&q.name, k.min(q.name.labels.len()));
            Action::Reply(encode(&reply_to(req, Rcode::NoError, false, vec![], vec![rr(&owner, ns(&dn("lame.ns.invalid.")), 300)], vec![])))
        }
        Fault::UpwardReferral => Action::Reply(encode(&reply_to(
            req,
            Rcode::NoError,
            false,
            vec![],
            vec![rr(&DomainName::root_domain(), ns(&dn("r0.rootns.")), 300)],
            vec![],
        ))),
        Fault::SelfAlias => {
            let q = &req.questions[0];
            Action::Reply(encode(&reply_to(req, Rcode::NoError, true, vec![rr(&q.name, cname(&q.name), 300)], vec![], vec![])))
        }
        Fault::AliasCycleInReply => {
            let q = &req.questions[0];
            let (x, y) = (dn("cycle-a.invalid."), dn("cycle-b.invalid."));
            let mut answers = vec![rr(&q.name, cname(&x), 300), rr(&x, cname(&y), 300), rr(&y, cname(&x), 300)];
            if rng.bool() {
                answers.rotate_left(1);
            }
            Action::Reply(encode(&reply_to(req, Rcode::NoError, true, answers, vec![], vec![])))
        }
        Fault::AliasToSelfLoopInReply => {
            let q = &req.questions[0];
            let x = dn("selfloop.invalid.");
            Action::Reply(encode(&reply_to(req, Rcode::NoError, true, vec![rr(&q.name, cname(&x), 300), rr(&x, cname(&x), 300)], vec![], vec![])))
        }
        Fault::GlueAliasCycle => {
            // a (deeper) referral whose name server is "reachable" only through aliases that loop
            let q = &req.questions[0];
            let host = dn("ns.gluecycle.invalid.");
            let (x, y) = (dn("g1.gluecycle.invalid."), dn("g2.gluecycle.invalid."));
            Action::Reply(encode(&reply_to(
                req,
                Rcode::NoError,
                false,
                vec![],
                vec![rr(&q.name, ns(&host), 300)],
                vec![rr(&host, cname(&x), 300), rr(&x, cname(&y), 300), rr(&y, cname(&x), 300)],
            )))
        }
    }
}

/// Hostile universe behaviours layered over a universe (whole-run, not per exchange).
#[derive(Copy, Clone, Debug, PartialEq, Eq)]
pub enum Hostile {
    None,
    /// every UDP exchange dropped, every TCP answer 4.9 s late
    SlowEverything,
    /// two zones refer to each other for ever (A -> B -> A)
    CircularReferral,
    /// aliases in a loop across servers
    AliasLoop,
    /// alias chain of 40 links, one reply per link
    AliasChain40,
    /// referral to a name server whose name cannot be resolved
    UnresolvableNs,
    /// four zones t0..t3.tangle. whose name servers are named in each other (or in themselves, or nowhere), with or
    /// without glue, and whose servers are honest, lame, failing or silent - all derived from the seed
    Tangle(u64),
}

impl Hostile {
    pub fn class(&self) -> &'static str {
        match self {
            Hostile::None => "None",
            Hostile::SlowEverything => "SlowEverything",
            Hostile::CircularReferral => "CircularReferral",
            Hostile::AliasLoop => "AliasLoop",
            Hostile::AliasChain40 => "AliasChain40",
            Hostile::UnresolvableNs => "UnresolvableNs",
            Hostile::Tangle(_) => "Tangle",
        }
    }
}

/// The tangle a seed stands for: per zone its NS set as (zone whose name the server carries, 9 = a name that does not
/// exist; glue supplied?) and per zone how its server behaves (0 honest, 1 REFUSED, 2 SERVFAIL, 3 silent, 4 aliases
/// its own name-server name to another zone's).
pub struct Tangle {
    pub ns: Vec<Vec<(u8, bool)>>,
    pub behave: Vec<u8>,
}

pub fn tangle_of(seed: u64) -> Tangle {
    let mut r = Rng::new(seed ^ 0x7a6e_61);
    let mut ns = Vec::new();
    let mut behave = Vec::new();
    for _ in 0..4 {
        let k = r.range(1, 3);
        ns.push((0..k).map(|_| (if r.chance(1, 8) { 9u8 } else { r.below(4) as u8 }, r.chance(1, 3))).collect());
        behave.push(*r.pick(&[0u8, 0, 0, 1, 1, 2, 3, 4]));
    }
    Tangle { ns, behave }
}

pub fn tangle_server(j: u8) -> Ipv4Addr {
    Ipv4Addr::new(203, 0, 113, 20 + j)
}

pub struct C08Net {
    pub u: Arc<Universe>,
    pub plan: Vec<Fault>,
    pub after_plan: Fault,
    pub hostile: Hostile,
    pub rng: Rng,
    pub supplied: Arc<Mutex<Supplied>>,
}

pub fn c08_responder(mut net: C08Net) -> Responder {
    Box::new(move |ctx: &Ctx| {
        let Some(req) = ctx.request else {
            return (Action::Fail, "unparseable-request".into());
        };
        if req.questions.is_empty() {
            return (Action::Fail, "no-question".into());
        }
        let q = req.questions[0].clone();
        let mut honest = net.u.serve(ctx.addr.ip(), &q);
        let mut forced: Option<Fault> = None;
        // hostile universes rewrite the honest answer
        match net.hostile {
            Hostile::CircularReferral => {
                // whoever is asked about a name under loop.test. refers to the other of two zones
                if is_suffix(&q.name, &dn("loop.")) {
                    let (owner, host, ip) = if ctx.addr.ip() == IpAddr::V4(Ipv4Addr::new(203, 0, 113, 1)) {
                        ("b.loop.", "ns.b.loop.", Ipv4Addr::new(203, 0, 113, 2))
                    } else {
                        ("a.b.loop.", "ns.a.b.loop.", Ipv4Addr::new(203, 0, 113, 1))
                    };
                    // depth alternates 3 / 4 labels, so "strictly deeper" stops it after one step; the second variant keeps
                    // the same owner with another host name
                    honest = universe::ServerReply {
                        rcode: Rcode::NoError,
                        aa: false,
                        answers: vec![],
                        authority: vec![rr(&dn(owner), ns(&dn(host)), 300)],
                        additional: vec![rr(&dn(host), a(ip), 300)],
                        zone_depth: None,
                        kind: "circular-referral",
                    };
                }
            }
            Hostile::AliasLoop => {
                if is_suffix(&q.name, &dn("loop.")) {
                    // l0 -> l1 -> l2 -> l0, one link per reply
                    let first = show_name(&q.name);
                    let i: usize = first.trim_start_matches('l').chars().next().and_then(|c| c.to_digit(10)).unwrap_or(0) as usize;
                    let target = dn(&format!("l{}.loop.", (i + 1) % 3));
                    honest = universe::ServerReply {
                        rcode: Rcode::NoError,
                        aa: true,
                        answers: vec![rr(&q.name, cname(&target), 300)],
                        authority: vec![],
                        additional: vec![],
                        zone_depth: None,
                        kind: "alias-loop",
                    };
                }
            }
            Hostile::AliasChain40 => {
                if is_suffix(&q.name, &dn("chain.")) {
                    let first = show_name(&q.name);
                    let i: usize = first.trim_start_matches('c').split('.').next().and_then(|s| s.parse().ok()).unwrap_or(0);
                    honest = if i < 40 {
                        universe::ServerReply {
                            rcode: Rcode::NoError,
                            aa: true,
                            answers: vec![rr(&q.name, cname(&dn(&format!("c{}.chain.", i + 1))), 300)],
                            authority: vec![],
                            additional: vec![],
                            zone_depth: None,
                            kind: "alias-chain",
                        }
                    } else {
                        universe::ServerReply {
                            rcode: Rcode::NoError,
                            aa: true,
                            answers: vec![rr(&q.name, a(Ipv4Addr::new(10, 40, 40, 40)), 300)],
                            authority: vec![],
                            additional: vec![],
                            zone_depth: None,
                            kind: "alias-chain-end",
                        }
                    };
                }
            }
            Hostile::Tangle(seed) => {
                if is_suffix(&q.name, &dn("tangle.")) {
                    let t = tangle_of(seed);
                    let me = (0..4u8).find(|j| ctx.addr.ip() == IpAddr::V4(tangle_server(*j)));
                    // which zone is the name in?
                    let labels = show_name(&q.name);
                    let zi: Option<u8> = labels.trim_end_matches('.').rsplit('.').nth(1).and_then(|l| l.strip_prefix('t')).and_then(|d| d.parse().ok()).filter(|d| *d < 4);
                    let plain = |rcode: Rcode, aa: bool, answers: Vec<ResourceRecord>, kind: &'static str| universe::ServerReply {
                        rcode,
                        aa,
                        answers,
                        authority: vec![],
                        additional: vec![],
                        zone_depth: None,
                        kind,
                    };
                    honest = match (me, zi) {
                        (Some(j), Some(i)) if i == j => match t.behave[j as usize] {
                            0 if q.qtype == qt(RecordType::A) => plain(Rcode::NoError, true, vec![rr(&q.name, a(Ipv4Addr::new(10, 77, j, 1)), 300)], "tangle-answer"),
                            0 => plain(Rcode::NoError, true, vec![], "tangle-nodata"),
                            1 => plain(Rcode::Refused, false, vec![], "tangle-refused"),
                            2 => plain(Rcode::ServerFailure, false, vec![], "tangle-servfail"),
                            3 => {
                                forced = Some(Fault::Drop);
                                plain(Rcode::NoError, false, vec![], "tangle-silent")
                            }
                            _ => plain(Rcode::NoError, true, vec![rr(&q.name, cname(&dn(&format!("ns.t{}.tangle.", (j + 1) % 4))), 300)], "tangle-alias"),
                        },
                        (Some(_), _) => plain(Rcode::Refused, false, vec![], "tangle-not-my-zone"),
                        (None, Some(i)) => {
                            let apex = dn(&format!("t{i}.tangle."));
                            let mut authority = Vec::new();
                            let mut additional = Vec::new();
                            for (target, glue) in &t.ns[i as usize] {
                                let host = if *target == 9 { dn("ns.nowhere.tangle.") } else { dn(&format!("ns.t{target}.tangle.")) };
                                authority.push(rr(&apex, ns(&host), 300));
                                if *glue && *target != 9 {
                                    additional.push(rr(&host, a(tangle_server(*target)), 300));
                                }
                            }
                            universe::ServerReply {
                                rcode: Rcode::NoError,
                                aa: false,
                                answers: vec![],
                                authority,
                                additional,
                                zone_depth: None,
                                kind: "tangle-referral",
                            }
                        }
                        (None, None) => plain(Rcode::NameError, true, vec![], "tangle-nxdomain"),
                    };
                }
            }
            Hostile::UnresolvableNs => {
                if is_suffix(&q.name, &dn("orphan.")) {
                    honest = universe::ServerReply {
                        rcode: Rcode::NoError,
                        aa: false,
                        answers: vec![],
                        authority: vec![rr(&dn("orphan."), ns(&dn("ns.nowhere.orphan.")), 300)],
                        additional: vec![],
                        zone_depth: None,
                        kind: "unresolvable-ns",
                    };
                }
            }
            _ => {}
        }
        let fault = if net.hostile == Hostile::SlowEverything {
            match ctx.transport {
                Transport::Udp => Fault::Drop,
                Transport::Tcp => Fault::Delay4900,
            }
        } else {
            net.plan.get(ctx.index).copied().unwrap_or(net.after_plan)
        };
        let fault = forced.unwrap_or(fault);
        let action = apply_fault(fault, req, &honest, &mut net.rng);
        if let Action::Reply(b) | Action::ReplyAfter(_, b) = &action {
            net.supplied.lock().unwrap().add_bytes(ctx.transport, b);
        }
        (action, format!("{fault:?}/{}", honest.kind))
    })
}

/// Check one C08 run.  `local`: records of the local zones (hints).
#[allow(clippy::too_many_arguments)]
fn c08_check(out: &Outcome, supplied: &Supplied, local: &BTreeSet<(DomainName, RecordTypeWithData)>, sh: &mut Shard, replay: &dyn Fn() -> Value, mode: &Mode) {
    match &out.result {
        Err(p) => {
            sh.violation(
                format!("C08:panic:{}", p.split_whitespace().take(5).collect::<Vec<_>>().join("_")),
                format!("resolve panicked: {p}"),
                replay(),
            );
            return;
        }
        Ok(Ok(res)) => {
            for r in res.clone().rrs() {
                let k = key3(&r);
                if !supplied.records.contains(&k) && !local.contains(&k) {
                    sh.violation(
                        "C08:record-nobody-supplied",
                        format!("answer contains {} which neither an upstream reply nor local data supplied", show_rr(&r)),
                        replay(),
                    );
                    break;
                }
            }
            sh.count("outcome:answer", 1);
        }
        Ok(Err(e)) => {
            sh.count(&format!("outcome:error:{}", format!("{e:?}").split(|c: char| !c.is_ascii_alphanumeric()).next().unwrap_or("")), 1);
        }
    }
    if out.elapsed > Duration::from_millis(60_001) {
        sh.violation(
            format!("C08:resolution-exceeded-60s:{}", mode.name()),
            format!("resolve returned after {:.3} s of virtual time", out.elapsed.as_secs_f64()),
            replay(),
        );
    }
    sh.count_max("max:virtual_ms_of_one_resolution", out.elapsed.as_millis() as u64);
    for e in &out.log {
        match e.duration() {
            Some(d) if d > Duration::from_millis(5_001) => {
                sh.violation(
                    format!("C08:exchange-exceeded-5s:{:?}", e.transport),
                    format!("exchange {} ({:?} to {}) stayed open for {:.3} s", e.index, e.transport, e.addr, d.as_secs_f64()),
                    replay(),
                );
                break;
            }
            None => {
                sh.violation("C08:exchange-never-released", format!("exchange {} was still open when resolve returned", e.index), replay());
                break;
            }
            _ => {}
        }
    }
    sh.count_max("max:exchanges_in_one_resolution", out.log.len() as u64);
}

fn local_records(z: &Zone) -> BTreeSet<(DomainName, RecordTypeWithData)> {
    let mut s = BTreeSet::new();
    for (n, zrs) in z.all_records() {
        for zr in zrs {
            s.insert((n.clone(), zr.rtype_with_data.clone()));
        }
    }
    s
}

fn c08(args: Args) {
    let k = args.tier.pick(3usize, 4usize);
    let mut run = Run::new(
        args.clone(),
        "fault_enumeration",
        "fault plans over the upstream exchanges of a resolution, under tokio's paused clock. enumerated: every assignment of the \
         12 principal faults (ok, drop, delay 4.9 s, delay 5.1 s, garbage bytes, reply cut at a random length, wrong ID, QR=0, TC=1, \
         wrong question, SERVFAIL, empty NOERROR) to the first k exchanges (k=3 quick, 4 thorough; honest afterwards) x 6 fixed \
         universes x {recursive, forwarding}; random plans of length <= 40 over 22 faults (incl. 0.1/30/70 s delays, FORMERR, NOTIMP, \
         REFUSED, connection refused, lame and upward referrals, self-alias) with a random fault for ever after; hostile universes: \
         everything slow (UDP dropped, TCP 4.9 s late), circular referrals, alias loop and 40-link alias chain across replies, \
         referral to an unresolvable name server. Judged on virtual time: resolve() <= 60 s, every exchange future released <= 5 s, \
         no panic (abort/hang seen by the parent process), every record of an Ok answer was in some reply sent or in local data. \
         non-trivial = run with at least one faulty exchange; distinct = distinct (universe, question, plan, mode).",
    );
    run.exhaustive = true;
    run.set_extra("exhaustive_part", json!(format!("all 12^{k} assignments of the principal faults to the first {k} exchanges, per universe/question/mode: complete; random plans and hostile universes are sampling")));
    let hub = TraceHub::new(&args, THREADS);
    hub.start_hang_monitor(Duration::from_secs(30));
    let seed = args.seed;
    let n_random = args.size(200_000, 8_000_000);
    // six fixed universes (by seed), one question each chosen to need several exchanges
    let mut fixed: Vec<(Arc<Universe>, Question)> = Vec::new();
    let mut urng = Rng::new(seed).fork(0x0808);
    while fixed.len() < 6 {
        let cfg = GenCfg {
            max_depth: 3,
            max_zones: 5,
            v4_only: 4,
            v6_only: 0,
            allow_glueless: fixed.len() % 2 == 0,
            cname_chains: fixed.len() % 3,
        };
        let u = universe::generate(&mut urng, &cfg);
        // a question about data in the deepest zone
        let z = u.zones.iter().enumerate().max_by_key(|(_, z)| z.depth).map(|(i, _)| i).unwrap();
        let Some(r) = u.zones[z].recs.iter().find(|r| matches!(r.data, RecordTypeWithData::A { .. }) && u.host_by_name(&r.owner).is_none()) else { continue };
        let q = question(&r.owner, qt(RecordType::A));
        fixed.push((Arc::new(u), q));
    }
    let total_plans = PRINCIPAL.len().pow(k as u32);
    run.set_extra("enumerated_plans_per_universe_and_mode", json!(total_plans));

    run.parallel(THREADS, STACK, |ti, sh| {
        freeze_cache_clock();
        let mut sim = Sim::new();
        let mut tr = hub.tracer(ti);
        let mut rng = Rng::new(seed).fork(0x0800 + ti as u64);
        let fwd_addr: SocketAddr = "198.51.100.53:53".parse().unwrap();

        // --- enumerated plans
        let mut job = 0usize;
        for (ui, (u, q)) in fixed.iter().enumerate() {
            let hints = u.hints_zone();
            let local = local_records(&hints);
            let mut zones = Zones::new();
            zones.insert(hints);
            for forwarding in [false, true] {
                for p in 0..total_plans {
                    job += 1;
                    if job % THREADS != ti {
                        continue;
                    }
                    let mut plan = Vec::with_capacity(k);
                    let mut x = p;
                    for _ in 0..k {
                        plan.push(PRINCIPAL[x % PRINCIPAL.len()]);
                        x /= PRINCIPAL.len();
                    }
                    let mode = if forwarding { Mode::forwarding(fwd_addr) } else { Mode::recursive(ProtocolMode::OnlyV4, 53) };
                    let cache = SharedCache::new();
                    let supplied = Arc::new(Mutex::new(Supplied::default()));
                    let responder: Responder = if forwarding {
                        forwarder_responder(u.clone(), plan.clone(), Fault::Ok, rng.fork(p as u64), supplied.clone())
                    } else {
                        c08_responder(C08Net {
                            u: u.clone(),
                            plan: plan.clone(),
                            after_plan: Fault::Ok,
                            hostile: Hostile::None,
                            rng: rng.fork(p as u64),
                            supplied: supplied.clone(),
                        })
                    };
                    sh.eval();
                    tr.begin(|| json!({"class": "enumerated", "universe": ui, "plan": format!("{plan:?}"), "forwarding": forwarding}));
                    let out = sim.resolve(responder, &mode, &zones, &cache, q);
                    tr.end();
                    let replay = || {
                        json!({"kind": "fault-plan", "class": "enumerated", "fixed_universe": ui, "mode": mode.name(), "plan": format!("{plan:?}"), "then": "Ok",
                               "question": question_json(q), "universe": u.describe(), "result": result_json(&out.result),
                               "virtual_elapsed_ms": out.elapsed.as_millis() as u64, "exchanges": log_json(&out.log)})
                    };
                    c08_check(&out, &supplied.lock().unwrap(), &local, sh, &replay, &mode);
                    sh.count("runs:enumerated", 1);
                    if plan.iter().any(|f| *f != Fault::Ok) {
                        sh.nontrivial(fnv_mix(fnv_mix(ui as u64, p as u64), forwarding as u64));
                    }
                    if sh.want_sample() && p == 1234 % total_plans {
                        sh.sample(replay());
                    }
                }
            }
        }

        // --- single-fault sweep: every fault kind at each of the first 6 exchanges (honest before and after)
        for (ui, (u, q)) in fixed.iter().enumerate() {
            let hints = u.hints_zone();
            let local = local_records(&hints);
            let mut zones = Zones::new();
            zones.insert(hints);
            for forwarding in [false, true] {
                for (fi, fault) in ALL_FAULTS.iter().enumerate() {
                    for pos in 0..6usize {
                        job += 1;
                        if job % THREADS != ti {
                            continue;
                        }
                        let mut plan = vec![Fault::Ok; pos];
                        plan.push(*fault);
                        let mode = if forwarding { Mode::forwarding(fwd_addr) } else { Mode::recursive(ProtocolMode::OnlyV4, 53) };
                        let cache = SharedCache::new();
                        let supplied = Arc::new(Mutex::new(Supplied::default()));
                        let responder: Responder = if forwarding {
                            forwarder_responder(u.clone(), plan.clone(), Fault::Ok, rng.fork(fi as u64), supplied.clone())
                        } else {
                            c08_responder(C08Net {
                                u: u.clone(),
                                plan: plan.clone(),
                                after_plan: Fault::Ok,
                                hostile: Hostile::None,
                                rng: rng.fork(fi as u64),
                                supplied: supplied.clone(),
                            })
                        };
                        sh.eval();
                        tr.begin(|| json!({"class": "single-fault", "universe": ui, "plan": format!("{plan:?}"), "forwarding": forwarding, "question": question_json(q)}));
                        let out = sim.resolve(responder, &mode, &zones, &cache, q);
                        tr.end();
                        let replay = || {
                            json!({"kind": "fault-plan", "class": "single-fault", "fixed_universe": ui, "mode": mode.name(), "plan": format!("{plan:?}"), "then": "Ok",
                                   "question": question_json(q), "universe": u.describe(), "result": result_json(&out.result),
                                   "virtual_elapsed_ms": out.elapsed.as_millis() as u64, "exchanges": log_json(&out.log)})
                        };
                        c08_check(&out, &supplied.lock().unwrap(), &local, sh, &replay, &mode);
                        sh.count("runs:single-fault-sweep", 1);
                        sh.nontrivial(fnv_mix(fnv_mix(0x51f, (ui * 1000 + fi * 10 + pos) as u64), forwarding as u64));
                    }
                }
            }
        }

        // --- random plans and hostile universes
        for kk in 0..(n_random / THREADS as u64) {
            let cfg = GenCfg {
                max_depth: rng.range(1, 4),
                max_zones: rng.range(2, 8),
                v4_only: 4,
                v6_only: 0,
                allow_glueless: rng.bool(),
                cname_chains: rng.below(3),
            };
            let u = Arc::new(universe::generate(&mut rng, &cfg));
            let hints = u.hints_zone();
            let local = local_records(&hints);
            let mut zones = Zones::new();
            zones.insert(hints);
            let hostile = match rng.below(12) {
                0 => Hostile::SlowEverything,
                1 => Hostile::CircularReferral,
                2 => Hostile::AliasLoop,
                3 => Hostile::AliasChain40,
                4 => Hostile::UnresolvableNs,
                5 | 6 => Hostile::Tangle(rng.next_u64()),
                _ => Hostile::None,
            };
            let q = match hostile {
                Hostile::CircularReferral => question(&dn("www.a.b.loop."), qt(RecordType::A)),
                Hostile::AliasLoop => question(&dn("l0.loop."), qt(RecordType::A)),
                Hostile::AliasChain40 => question(&dn("c0.chain."), qt(RecordType::A)),
                Hostile::UnresolvableNs => question(&dn("www.orphan."), qt(RecordType::A)),
                Hostile::Tangle(_) => question(&dn(&format!("{}.t{}.tangle.", rng.pick(&["www", "ns"]), rng.below(4))), qt(*rng.pick(&[RecordType::A, RecordType::A, RecordType::MX]))),
                _ => universe::questions(&mut rng, &u, 1).pop().unwrap(),
            };
            // a tangle supplies its own faults: two runs in three leave the exchanges themselves alone
            let quiet = matches!(hostile, Hostile::Tangle(_)) && rng.chance(2, 3);
            let len = if quiet { 0 } else { rng.below(41) };
            let plan: Vec<Fault> = (0..len).map(|_| if rng.chance(1, 2) { Fault::Ok } else { *rng.pick(&ALL_FAULTS) }).collect();
            let after = if quiet || rng.chance(1, 2) { Fault::Ok } else { *rng.pick(&ALL_FAULTS) };
            let forwarding = rng.chance(1, 4) && hostile == Hostile::None;
            let mode = if forwarding { Mode::forwarding(fwd_addr) } else { Mode::recursive(ProtocolMode::OnlyV4, 53) };
            let cache = SharedCache::new();
            let supplied = Arc::new(Mutex::new(Supplied::default()));
            // two questions on the same cache: the second sees whatever the faults left behind
            for round in 0..2 {
                let responder: Responder = if forwarding {
                    forwarder_responder(u.clone(), plan.clone(), after, rng.fork(kk), supplied.clone())
                } else {
                    c08_responder(C08Net {
                        u: u.clone(),
                        plan: plan.clone(),
                        after_plan: after,
                        hostile,
                        rng: rng.fork(kk),
                        supplied: supplied.clone(),
                    })
                };
                sh.eval();
                tr.begin(|| json!({"class": "random", "thread": ti, "k": kk, "round": round}));
                let out = sim.resolve(responder, &mode, &zones, &cache, &q);
                tr.end();
                let replay = || {
                    json!({"kind": "fault-plan", "class": "random", "coords": {"thread": ti, "k": kk, "round": round}, "mode": mode.name(), "hostile": format!("{hostile:?}"),
                           "plan": format!("{plan:?}"), "then": format!("{after:?}"), "question": question_json(&q), "universe": u.describe(),
                           "result": result_json(&out.result), "virtual_elapsed_ms": out.elapsed.as_millis() as u64, "exchanges": log_json(&out.log)})
                };
                c08_check(&out, &supplied.lock().unwrap(), &local, sh, &replay, &mode);
                sh.count("runs:random", 1);
                sh.count(&format!("hostile:{}", hostile.class()), 1);
                if out.elapsed >= Duration::from_secs(60) {
                    sh.count("runs-ended-by-the-60s-budget", 1);
                }
                let mut h = fnv(format!("{plan:?}{after:?}{hostile:?}").as_bytes());
                h = fnv_mix(h, fnv(show_name(&q.name).as_bytes()));
                sh.nontrivial(fnv_mix(h, round));
                if sh.want_sample() && hostile == Hostile::SlowEverything && round == 0 {
                    sh.sample(replay());
                }
            }
        }
    });
    run.finish(500);
}

/// A forwarder: a full resolver that answers with the universe's expectation, subject to the fault plan.
pub fn forwarder_responder(u: Arc<Universe>, plan: Vec<Fault>, after: Fault, mut rng: Rng, supplied: Arc<Mutex<Supplied>>) -> Responder {
    Box::new(move |ctx: &Ctx| {
        let Some(req) = ctx.request else {
            return (Action::Fail, "unparseable-request".into());
        };
        if req.questions.is_empty() {
            return (Action::Fail, "no-question".into());
        }
        let q = &req.questions[0];
        let e = u.expected(&q.name, q.qtype);
        let mut answers = e.chain.clone();
        answers.extend(e.finals.clone());
        // a forwarder resolves on the asker's behalf only when asked to (RD); otherwise it has nothing to say
        let honest = if req.header.recursion_desired {
            universe::ServerReply {
                rcode: Rcode::NoError,
                aa: false,
                answers,
                authority: e.soa.clone().map(|s| vec![s]).unwrap_or_default(),
                additional: vec![],
                zone_depth: None,
                kind: "forwarder",
            }
        } else {
            universe::ServerReply {
                rcode: Rcode::Refused,
                aa: false,
                answers: vec![],
                authority: vec![],
                additional: vec![],
                zone_depth: None,
                kind: "forwarder-asked-without-RD",
            }
        };
        let fault = plan.get(ctx.index).copied().unwrap_or(after);
        let action = apply_fault(fault, req, &honest, &mut rng);
        if let Action::Reply(b) | Action::ReplyAfter(_, b) = &action {
            supplied.lock().unwrap().add_bytes(ctx.transport, b);
        }
        (action, format!("{fault:?}/forwarder"))
    })
}

#[allow(dead_code)]
fn unused(_: &str) -> String {
    truncate("", 1) + &hex(&[])
}

//! C10: CNAME chains are returned whole, in order, and loops end safely.
//!
//! Alias graphs whose links are placed independently in: an authoritative zone, a second
//! authoritative zone, the non-authoritative root zone, the cache, or upstream (one
//! upstream server, authoritative for everything not local).

use dns_resolver::cache::SharedCache;
use dns_resolver::util::types::ProtocolMode;
use dns_types::protocol::types::*;
use dns_types::zones::types::{Zone, Zones, SOA};
use serde_json::{json, Value};
use std::collections::BTreeSet;
use std::net::{IpAddr, Ipv4Addr, SocketAddr};
use std::sync::{Arc, Mutex};
use std::time::Duration;

use verif_harness::crash::{TraceHub, Tracer};
use verif_harness::names::*;
use verif_harness::netsim::*;
use verif_harness::refmodel::zone::FlatSoa;
use verif_harness::rng::{fnv, fnv_mix, Rng};
use verif_harness::run::{Args, Run, Shard};
use verif_harness::universe::{UHost, URec, UZone, Universe};

use crate::{forwarder_responder, freeze_cache_clock, log_json, result_json, universe_responder, Fault, Supplied, STACK, THREADS};

#[derive(Copy, Clone, Debug, PartialEq, Eq)]
enum Src {
    Auth1,
    Auth2,
    Local,
    Cache,
    Up,
}

const SRCS: [Src; 5] = [Src::Auth1, Src::Auth2, Src::Local, Src::Cache, Src::Up];

fn suffix(s: Src) -> &'static str {
    match s {
        Src::Auth1 => "auth1.test.",
        Src::Auth2 => "auth2.test.",
        Src::Local => "local.",
        Src::Cache => "cached.",
        Src::Up => "up.",
    }
}

struct Graph {
    /// names n_0 .. n_L (n_0 is the question name), each with the source that holds it
    names: Vec<(DomainName, Src)>,
    /// CNAME target index for each alias name (None for the final name)
    next: Vec<Option<usize>>,
    /// the final RRset (at the last name), possibly empty
    finals: Vec<RecordTypeWithData>,
    qtype: RecordType,
    /// a record of another type stored beside the CNAME at these alias indices
    beside: BTreeSet<usize>,
    /// cache-held alias names that also carry a second, stale CNAME (the upstream re-pointed the alias
    /// and both records are still alive in the cache)
    stale: BTreeSet<usize>,
    has_cycle: bool,
}

fn stale_target(i: usize) -> DomainName {
    dn(&format!("stale{i}.cached."))
}

fn mk_soa(apex: &str) -> SOA {
    SOA {
        mname: dn(&format!("ns.{apex}")),
        rname: dn("hostmaster.invalid."),
        serial: 1,
        refresh: 2,
        retry: 3,
        expire: 4,
        minimum: 60,
    }
}

fn gen_graph(rng: &mut Rng) -> Graph {
    let len = match rng.below(10) {
        0 => 0,
        1 => rng.range(25, 40),
        2 => rng.range(8, 25),
        _ => rng.range(1, 7),
    };
    // source placement: mostly mixed, sometimes all in one source
    let uniform = if rng.chance(1, 5) { Some(*rng.pick(&SRCS)) } else { None };
    let mut names = Vec::new();
    for i in 0..=len {
        let s = uniform.unwrap_or_else(|| *rng.pick(&SRCS));
        names.push((dn(&format!("l{i}.{}", suffix(s))), s));
    }
    let mut next: Vec<Option<usize>> = (0..=len).map(|i| if i < len { Some(i + 1) } else { None }).collect();
    let mut has_cycle = false;
    if len >= 1 && rng.chance(1, 5) {
        // close a cycle: the last name aliases back to an earlier one (rho shape; j = 0 gives a pure cycle)
        let j = rng.below(len + 1);
        next[len] = Some(j);
        has_cycle = true;
    }
    let qtype = *rng.pick(&[RecordType::A, RecordType::TXT, RecordType::MX]);
    let finals = if has_cycle || rng.chance(1, 5) {
        Vec::new()
    } else {
        (0..rng.range(1, 3))
            .map(|k| match qtype {
                RecordType::A => a(Ipv4Addr::new(10, 10, len as u8, k as u8)),
                RecordType::TXT => txt(&[b'f', k as u8]),
                _ => mx(k as u16, &dn("mail.final.")),
            })
            .collect()
    };
    let mut beside = BTreeSet::new();
    for i in 0..len {
        if rng.chance(1, 10) {
            beside.insert(i);
        }
    }
    let mut stale = BTreeSet::new();
    for i in 0..len {
        if names[i].1 == Src::Cache && rng.chance(1, 6) {
            stale.insert(i);
        }
    }
    Graph {
        names,
        next,
        finals,
        qtype,
        beside,
        stale,
        has_cycle,
    }
}

struct World {
    zones: Zones,
    cache: SharedCache,
    upstream: Arc<Universe>,
}

fn other_type_data(qtype: RecordType) -> RecordTypeWithData {
    if qtype == RecordType::TXT {
        a(Ipv4Addr::new(10, 99, 99, 99))
    } else {
        txt(b"beside")
    }
}

fn build_world(g: &Graph) -> World {
    let mut auth1 = Zone::new(dn("auth1.test."), Some(mk_soa("auth1.test.")));
    let mut auth2 = Zone::new(dn("auth2.test."), Some(mk_soa("auth2.test.")));
    let mut root = Zone::new(DomainName::root_domain(), None);
    root.insert(&DomainName::root_domain(), ns(&dn("r0.rootns.")), 3600);
    root.insert(&dn("r0.rootns."), a(Ipv4Addr::new(192, 0, 2, 2)), 3600);
    let cache = SharedCache::new();
    let mut up_recs: Vec<URec> = vec![URec {
        owner: dn("r0.rootns."),
        data: a(Ipv4Addr::new(192, 0, 2, 2)),
        ttl: 3600,
    }];
    let mut put = |name: &DomainName, src: Src, data: RecordTypeWithData| match src {
        Src::Auth1 => auth1.insert(name, data, 300),
        Src::Auth2 => auth2.insert(name, data, 300),
        Src::Local => root.insert(name, data, 300),
        Src::Cache => cache.insert(&rr(name, data, 300)),
        Src::Up => up_recs.push(URec {
            owner: name.clone(),
            data,
            ttl: 300,
        }),
    };
    for (i, (name, src)) in g.names.iter().enumerate() {
        if let Some(j) = g.next[i] {
            if g.stale.contains(&i) && i % 2 == 0 {
                put(name, *src, cname(&stale_target(i)));
            }
            put(name, *src, cname(&g.names[j].0));
            if g.stale.contains(&i) && i % 2 == 1 {
                put(name, *src, cname(&stale_target(i)));
            }
            if g.beside.contains(&i) {
                put(name, *src, other_type_data(g.qtype));
            }
        } else {
            for d in &g.finals {
                put(name, *src, d.clone());
            }
        }
    }
    let mut zones = Zones::new();
    zones.insert(auth1);
    zones.insert(auth2);
    zones.insert(root);
    let upstream = Universe {
        zones: vec![UZone {
            apex: DomainName::root_domain(),
            soa: FlatSoa {
                mname: dn("mname."),
                rname: dn("hostmaster.invalid."),
                serial: 1,
                refresh: 2,
                retry: 3,
                expire: 4,
                minimum: 300,
            },
            recs: up_recs,
            ns_hosts: vec![0],
            glue: vec![true],
            parent: None,
            children: vec![],
            depth: 0,
        }],
        hosts: vec![UHost {
            name: dn("r0.rootns."),
            v4: Some(Ipv4Addr::new(192, 0, 2, 2)),
            v6: None,
        }],
    };
    World {
        zones,
        cache,
        upstream: Arc::new(upstream),
    }
}

/// Is the whole chain (and the final name) obtainable in this mode?
fn reachable(g: &Graph, mode: &Mode) -> bool {
    let srcs: Vec<Src> = g.names.iter().map(|n| n.1).collect();
    if !mode.recursive {
        return !srcs.contains(&Src::Up);
    }
    if mode.forward.is_some() {
        // once the forwarder has taken over it can only continue through what it knows
        if let Some(first_up) = srcs.iter().position(|s| *s == Src::Up) {
            return srcs[first_up..].iter().all(|s| *s == Src::Up);
        }
        return true;
    }
    true
}

fn graph_json(g: &Graph) -> Value {
    json!({
        "qtype": format!("{}", g.qtype),
        "links": g.names.iter().enumerate().map(|(i, (n, s))| format!("{} [{s:?}]{}{}", show_name(n),
            g.next[i].map(|j| format!(" CNAME -> {}", show_name(&g.names[j].0))).unwrap_or_else(|| format!(" final: {} record(s)", g.finals.len())),
            if g.beside.contains(&i) { " (+ record of another type)" } else if g.stale.contains(&i) { " (+ a second, stale CNAME in the cache)" } else { "" })).collect::<Vec<_>>(),
        "cycle": g.has_cycle,
    })
}

#[allow(clippy::too_many_arguments)]
fn check_answer(g: &Graph, mode: &Mode, round: usize, out: &Outcome, sh: &mut Shard, replay: &dyn Fn() -> Value) {
    let len = g.names.len() - 1;
    // with a stale second CNAME in the cache either record may be followed, so completeness cannot be demanded
    let must_be_complete = !g.has_cycle && len <= 28 && reachable(g, mode) && g.stale.is_empty();
    let rrs = match &out.result {
        Err(p) => {
            sh.violation(format!("C10:panic:{}", p.split_whitespace().take(5).collect::<Vec<_>>().join("_")), p.clone(), replay());
            return;
        }
        Ok(Err(e)) => {
            sh.count("outcome:error", 1);
            if must_be_complete && !g.finals.is_empty() {
                sh.violation(
                    format!("C10:complete-chain-came-back-as-error:{}:round{}", mode.name(), round.min(1)),
                    format!("an acyclic chain of {len} links with every link reachable ended in '{e}'"),
                    replay(),
                );
            }
            return;
        }
        Ok(Ok(r)) => r.clone().rrs(),
    };
    sh.count("outcome:answer", 1);
    // structure
    let mut m = 0;
    while m < rrs.len() && matches!(rrs[m].rtype_with_data, RecordTypeWithData::CNAME { .. }) {
        m += 1;
    }
    let (chain, data) = rrs.split_at(m);
    let mut owners = BTreeSet::new();
    let mut expect_owner = g.names[0].0.clone();
    let mut idx = 0usize;
    let mut off_graph = false;
    for c in chain {
        if c.name != expect_owner {
            sh.violation(
                format!("C10:chain-out-of-order:{}", mode.name()),
                format!("CNAME {} does not continue the chain (expected owner {})", show_rr(c), show_name(&expect_owner)),
                replay(),
            );
            return;
        }
        if !owners.insert(c.name.clone()) {
            sh.violation(format!("C10:alias-followed-twice:{}", mode.name()), format!("owner {} appears twice", show_name(&c.name)), replay());
            return;
        }
        // the record must be the one its source holds
        let want_target = g.next[idx].map(|j| g.names[j].0.clone());
        let got_target = match &c.rtype_with_data {
            RecordTypeWithData::CNAME { cname } => cname.clone(),
            _ => unreachable!(),
        };
        if off_graph {
            // after a stale alias nothing more is held: any further record is not from a source
            sh.violation(format!("C10:cname-not-from-its-source:{}", mode.name()), format!("{} follows a stale alias whose target holds nothing", show_rr(c)), replay());
            return;
        }
        if g.stale.contains(&idx) && got_target == stale_target(idx) {
            // the cache holds two aliases for this name; the stale one was followed
            off_graph = true;
            expect_owner = got_target;
            continue;
        }
        if want_target.as_ref() != Some(&got_target) {
            sh.violation(format!("C10:cname-not-from-its-source:{}", mode.name()), format!("{} is not the record held for that name", show_rr(c)), replay());
            return;
        }
        idx = g.next[idx].unwrap();
        expect_owner = got_target;
    }
    if off_graph {
        if let Some(d) = data.first() {
            sh.violation(format!("C10:data-not-from-its-source:{}", mode.name()), format!("{} follows a stale alias whose target holds nothing", show_rr(d)), replay());
        }
        return;
    }
    for d in data {
        if matches!(d.rtype_with_data, RecordTypeWithData::CNAME { .. }) {
            sh.violation(format!("C10:cname-after-data:{}", mode.name()), format!("{} follows data records", show_rr(d)), replay());
            return;
        }
        if d.name != expect_owner || d.rtype_with_data.rtype() != g.qtype {
            sh.violation(
                format!("C10:foreign-record-after-chain:{}", mode.name()),
                format!("{} is not a {} record of the final target {}", show_rr(d), g.qtype, show_name(&expect_owner)),
                replay(),
            );
            return;
        }
        if g.next[idx].is_some() || !g.finals.contains(&d.rtype_with_data) {
            sh.violation(format!("C10:data-not-from-its-source:{}", mode.name()), format!("{} is not held for that name", show_rr(d)), replay());
            return;
        }
    }
    let mut seen = BTreeSet::new();
    for d in data {
        if !seen.insert(d.rtype_with_data.clone()) {
            sh.violation(format!("C10:repeated-record:{}", mode.name()), format!("{} appears twice", show_rr(d)), replay());
            return;
        }
    }
    if must_be_complete && (m != len || data.len() != g.finals.len()) {
        sh.violation(
            format!("C10:complete-chain-came-back-incomplete:{}:round{}", mode.name(), round.min(1)),
            format!("chain has {len} links and {} final records; answer has {m} CNAMEs and {} data records", g.finals.len(), data.len()),
            replay(),
        );
    }
}

/// An upstream server that does not chase aliases: a reply whose answer section starts with a CNAME carries that one
/// record only, so a chain of upstream links costs one exchange per link.
fn one_link_responder(u: Arc<Universe>) -> Responder {
    Box::new(move |ctx: &Ctx| {
        let Some(req) = ctx.request else {
            return (Action::Fail, "unparseable-request".into());
        };
        let Some(q) = req.questions.first() else {
            return (Action::Fail, "no-question".into());
        };
        let mut r = u.serve(ctx.addr.ip(), q);
        if r.answers.len() > 1 && matches!(r.answers[0].rtype_with_data, RecordTypeWithData::CNAME { .. }) {
            r.answers.truncate(1);
            r.authority.clear();
        }
        let m = reply_to(req, r.rcode, r.aa, r.answers, r.authority, r.additional);
        (Action::Reply(encode(&m)), format!("one-link:{}", r.kind))
    })
}

fn case(rng: &mut Rng, sim: &mut Sim, sh: &mut Shard, tr: &mut Tracer, coords: Value) {
    let g = gen_graph(rng);
    let one_link = rng.chance(1, 3);
    let w = build_world(&g);
    let fwd: SocketAddr = "198.51.100.53:53".parse().unwrap();
    let mode = match rng.below(3) {
        0 => Mode::authoritative_only(),
        1 => Mode::recursive(ProtocolMode::OnlyV4, 53),
        _ => Mode::forwarding(fwd),
    };
    let qtype = if rng.chance(1, 12) {
        *rng.pick(&[QueryType::Wildcard, qt(RecordType::CNAME)])
    } else {
        qt(g.qtype)
    };
    let q = question(&g.names[0].0, qtype);
    let len = g.names.len() - 1;
    for round in 0..2 {
        sh.eval();
        let responder: Responder = if mode.forward.is_some() {
            forwarder_responder(w.upstream.clone(), vec![], Fault::Ok, rng.fork(1), Arc::new(Mutex::new(Supplied::default())))
        } else if one_link {
            one_link_responder(w.upstream.clone())
        } else {
            universe_responder(w.upstream.clone())
        };
        tr.begin(|| json!({"coords": coords, "round": round, "graph": graph_json(&g), "mode": mode.name(), "upstream_one_link_per_reply": one_link}));
        let out = sim.resolve(responder, &mode, &w.zones, &w.cache, &q);
        tr.end();
        let replay = || {
            json!({"kind": "alias-graph", "coords": coords, "mode": mode.name(), "round": round, "question": question_json(&q), "graph": graph_json(&g), "upstream_one_link_per_reply": one_link,
                   "result": result_json(&out.result), "virtual_elapsed_ms": out.elapsed.as_millis() as u64, "exchanges": log_json(&out.log)})
        };
        if out.elapsed > Duration::from_millis(60_001) {
            sh.violation("C10:resolution-exceeded-60s", format!("{:.3} s virtual", out.elapsed.as_secs_f64()), replay());
        }
        if qtype == qt(g.qtype) {
            check_answer(&g, &mode, round, &out, sh, &replay);
        } else if let Err(p) = &out.result {
            sh.violation(format!("C10:panic:{}", p.split_whitespace().take(5).collect::<Vec<_>>().join("_")), p.clone(), replay());
        }
        sh.count(&format!("mode:{}", mode.name()), 1);
        if one_link && mode.recursive && mode.forward.is_none() {
            sh.count("runs:upstream-answers-one-link-per-reply", 1);
        }
        sh.count(if g.has_cycle { "graphs:with-cycle" } else if len > 28 { "graphs:longer-than-limit" } else { "graphs:acyclic-within-limit" }, 1);
        if len >= 1 {
            let mut h = fnv(format!("{:?}", graph_json(&g)).as_bytes());
            h = fnv_mix(h, fnv(mode.name().as_bytes()));
            sh.nontrivial(fnv_mix(h, round as u64));
        }
        sh.count_max("max:chain_links", len as u64);
        if sh.want_sample() && round == 1 && len >= 3 && len <= 8 {
            sh.sample(replay());
        }
    }
    let _ = IpAddr::V4(Ipv4Addr::LOCALHOST);
}

pub fn run(args: Args) {
    let mut run = Run::new(
        args.clone(),
        "exploration",
        "alias graphs: chains of 0..40 links, pure cycles and rho shapes, a record of another type beside some CNAMEs; each link \
         and the final RRset independently placed in an authoritative zone, a second authoritative zone, the non-authoritative \
         root zone, the cache or upstream (or all in one source); the upstream server returns a run of its links in one reply, or \
         (one case in three) one link per reply; questions for A / TXT / MX (CNAME and ANY for totality); \
         authoritative-only, recursive and forwarding mode; each question asked twice on the same cache. Every answer: leading \
         CNAMEs form a path from the question name, no owner twice, each record is the one its source holds, only records of \
         the asked type owned by the final target follow, nothing repeated; acyclic chains of <= 28 links whose links are all \
         obtainable in the mode must come back complete; no panic / hang / stack overflow (2 MiB threads, watched subprocess), \
         virtual time <= 60 s. non-trivial = graph with at least one link; distinct = distinct (graph, mode, round).",
    );
    run.assume("T5: upstream servers send the records of one reply in chain order; each alias name lives in exactly one source");
    run.assume("the forwarder resolves only what it is asked with RD=1; asked without RD it answers REFUSED");
    run.assume("in forwarding mode a chain is 'obtainable' only if, from the first upstream link on, all links are upstream (the forwarder cannot see local data)");
    let hub = TraceHub::new(&args, THREADS);
    hub.start_hang_monitor(Duration::from_secs(30));
    let n = args.size(2_400_000, 60_000_000);
    let seed = args.seed;
    run.parallel(THREADS, STACK, |ti, sh| {
        freeze_cache_clock();
        let mut sim = Sim::new();
        let mut tr = hub.tracer(ti);
        let mut rng = Rng::new(seed).fork(0x1000 + ti as u64);
        for k in 0..(n / THREADS as u64) {
            case(&mut rng, &mut sim, sh, &mut tr, json!({"thread": ti, "k": k}));
        }
    });
    run.finish(500);
}

//! Engine E4: the record cache (C05 TTL soundness, C15 pruning / LRU / size accounting).
//!
//! Histories of operations are run against the real `Cache` / `SharedCache`
//! under the virtual clock hook (H3) and judged by a sequential model; the
//! read-only snapshot hook (H4) supplies "what is held" and the structural
//! self-check.  A second leg stresses `SharedCache` from several threads with
//! unique values and checks conservation.

use dns_resolver::cache::{verif_clock, Cache, SharedCache, VerifSnapshot};
use dns_types::protocol::types::*;
use serde_json::{json, Value};
use std::collections::{BTreeMap, BTreeSet};
use std::net::{Ipv4Addr, Ipv6Addr};
use std::sync::atomic::{AtomicU64, Ordering};
use std::sync::{Arc, Barrier, Mutex};

use verif_harness::names::*;
use verif_harness::rng::{fnv_mix, Rng};
use verif_harness::run::{catch, quiet_panics, Args, Run, Shard};

const THREADS: usize = 16;
const SEC: u64 = 1_000_000_000;
const N_NAMES: usize = 6;
const N_TYPES: usize = 5;
const N_VALUES: usize = 4;

fn main() {
    let args = Args::parse();
    if let Some(p) = args.replay.clone() {
        replay(&args, &p);
        return;
    }
    match args.prop.as_str() {
        "C05" | "C15" => engine(args),
        other => {
            eprintln!("e_cache does not serve {other}");
            std::process::exit(2);
        }
    }
}

// ---------------------------------------------------------------------------
// operations

#[derive(Clone, Copy, Debug, PartialEq, Eq)]
enum Op {
    Insert { n: u8, t: u8, v: u8, ttl: u32 },
    /// one `insert_all` call with the first `k` items (n, t, v, ttl): what the resolvers use for an upstream reply
    InsertAll { k: u8, items: [(u8, u8, u8, u32); 3] },
    Get { n: u8, t: u8 },    // t == N_TYPES: ANY; t == N_TYPES+1: a type never inserted (PTR)
    GetRaw { n: u8, t: u8 }, // get_without_checking_expiration
    Prune,
    Advance { ns: u64 },
}

fn op_json(op: &Op) -> Value {
    match op {
        Op::Insert { n, t, v, ttl } => json!({"op": "insert", "n": n, "t": t, "v": v, "ttl": ttl}),
        Op::InsertAll { k, items } => json!({"op": "insert_all", "items": items[..*k as usize].iter().map(|(n, t, v, ttl)| json!({"n": n, "t": t, "v": v, "ttl": ttl})).collect::<Vec<_>>()}),
        Op::Get { n, t } => json!({"op": "get", "n": n, "t": t}),
        Op::GetRaw { n, t } => json!({"op": "get_raw", "n": n, "t": t}),
        Op::Prune => json!({"op": "prune"}),
        Op::Advance { ns } => json!({"op": "advance", "ns": ns}),
    }
}

fn op_from_json(v: &Value) -> Option<Op> {
    let g = |k: &str| v[k].as_u64().unwrap_or(0);
    Some(match v["op"].as_str()? {
        "insert" => Op::Insert {
            n: g("n") as u8,
            t: g("t") as u8,
            v: g("v") as u8,
            ttl: g("ttl") as u32,
        },
        "insert_all" => {
            let mut items = [(0u8, 0u8, 0u8, 0u32); 3];
            let arr = v["items"].as_array()?;
            for (i, it) in arr.iter().take(3).enumerate() {
                let gi = |k: &str| it[k].as_u64().unwrap_or(0);
                items[i] = (gi("n") as u8, gi("t") as u8, gi("v") as u8, gi("ttl") as u32);
            }
            Op::InsertAll { k: arr.len().min(3) as u8, items }
        }
        "get" => Op::Get {
            n: g("n") as u8,
            t: g("t") as u8,
        },
        "get_raw" => Op::GetRaw {
            n: g("n") as u8,
            t: g("t") as u8,
        },
        "prune" => Op::Prune,
        "advance" => Op::Advance { ns: g("ns") },
        _ => return None,
    })
}

fn name_of(n: u8) -> DomainName {
    dn(&format!("n{n}.cache.test."))
}

fn data_of(t: u8, v: u8) -> RecordTypeWithData {
    match t {
        0 => a(Ipv4Addr::new(172, 16, 0, v)),
        1 => aaaa(Ipv6Addr::new(0xfd00, 0, 0, 0, 0, 0, 0, v.into())),
        2 => txt(&[b'v', b'0' + v]),
        3 => mx(v.into(), &dn("mx.cache.test.")),
        _ => cname(&dn(&format!("target{v}.cache.test."))),
    }
}

fn rtype_of(t: u8) -> RecordType {
    match t {
        0 => RecordType::A,
        1 => RecordType::AAAA,
        2 => RecordType::TXT,
        3 => RecordType::MX,
        4 => RecordType::CNAME,
        _ => RecordType::PTR,
    }
}

fn qtype_of(t: u8) -> QueryType {
    if t as usize == N_TYPES {
        QueryType::Wildcard
    } else {
        QueryType::Record(rtype_of(t))
    }
}

/// Inverse of name_of / data_of for records coming back from the cache.
fn key_of(name: &DomainName, data: &RecordTypeWithData) -> Option<(u8, u8, u8)> {
    let n = (0..N_NAMES as u8).find(|n| &name_of(*n) == name)?;
    for t in 0..N_TYPES as u8 {
        for v in 0..N_VALUES as u8 {
            if &data_of(t, v) == data {
                return Some((n, t, v));
            }
        }
    }
    None
}

fn gen_history(rng: &mut Rng, len: usize, profile: usize) -> Vec<Op> {
    let ttls: &[u32] = match profile % 3 {
        0 => &[0, 1, 2, 5, 60, u32::MAX],
        1 => &[1, 2, 3, 5, 10],
        _ => &[1, 5, 10, 20, 100],
    };
    let steps: [u64; 8] = [1, 300_000_000, 999_000_000, SEC, 1_500_000_000, 10 * SEC, 3600 * SEC, 2 * SEC];
    let names = if profile % 2 == 0 { N_NAMES } else { 3 };
    let mut ops = Vec::with_capacity(len);
    for _ in 0..len {
        let n = rng.below(names) as u8;
        let t = rng.below(N_TYPES) as u8;
        let op = match rng.below(100) {
            0..=29 => Op::Insert {
                n,
                t,
                v: rng.below(N_VALUES) as u8,
                ttl: *rng.pick(ttls),
            },
            30..=34 => {
                // a batch as an upstream reply would give it: often one name, mixed TTLs (zero among them whatever the profile)
                let k = rng.range(1, 3) as u8;
                let mut items = [(0u8, 0u8, 0u8, 0u32); 3];
                for it in items.iter_mut().take(k as usize) {
                    *it = (
                        if rng.chance(2, 3) { n } else { rng.below(names) as u8 },
                        rng.below(N_TYPES) as u8,
                        rng.below(N_VALUES) as u8,
                        if rng.chance(1, 3) { 0 } else { *rng.pick(ttls) },
                    );
                }
                Op::InsertAll { k, items }
            }
            35..=54 => Op::Get {
                n,
                t: if rng.chance(1, 12) { N_TYPES as u8 + 1 } else { t },
            },
            55..=62 => Op::Get { n, t: N_TYPES as u8 },
            63..=67 => Op::GetRaw {
                n,
                t: if rng.bool() { N_TYPES as u8 } else { t },
            },
            68..=78 => Op::Prune,
            _ => Op::Advance {
                ns: if profile % 3 == 0 {
                    *rng.pick(&steps)
                } else {
                    *rng.pick(&steps[..6])
                },
            },
        };
        ops.push(op);
    }
    ops
}

/// The scenario of DESIGN §7 F9 and close relatives, generated systematically: a name holding
/// several types; the earliest-expiring record is re-inserted with a longer TTL; later a prune.
fn targeted_histories() -> Vec<Vec<Op>> {
    let mut out = Vec::new();
    for (ttl_a, ttl_b, reins, at, later) in [
        (10u32, 20u32, 100u32, 5u64, 21u64),
        (10, 20, 100, 5, 15),
        (5, 6, 60, 1, 7),
        (2, 3, 1, 1, 3),
        (10, 10, 100, 9, 11),
    ] {
        for other_same_type in [false, true] {
            let mut h = vec![
                Op::Insert { n: 0, t: 0, v: 0, ttl: ttl_a },
                Op::Insert {
                    n: 0,
                    t: if other_same_type { 0 } else { 2 },
                    v: 1,
                    ttl: ttl_b,
                },
                Op::Insert { n: 1, t: 0, v: 0, ttl: 1000 },
                Op::Advance { ns: at * SEC },
                Op::Insert { n: 0, t: 0, v: 0, ttl: reins },
                Op::Advance { ns: (later - at) * SEC },
                Op::Prune,
                Op::Get { n: 0, t: N_TYPES as u8 },
                Op::Advance { ns: 200 * SEC },
                Op::Prune,
            ];
            out.push(h.clone());
            h.insert(6, Op::Get { n: 0, t: 2 });
            out.push(h);
        }
    }
    out
}

// ---------------------------------------------------------------------------
// model

#[derive(Default, Clone)]
struct Model {
    /// (name, type, value) -> expiry in virtual ns
    held: BTreeMap<(u8, u8, u8), u64>,
    /// per name: (lo, hi) bounds on the time of last use
    used: BTreeMap<u8, (u64, u64)>,
    /// names that saw a re-insert of an already-held record since they were (re)created
    reinserted: BTreeSet<u8>,
    now: u64,
}

impl Model {
    fn names(&self) -> BTreeSet<u8> {
        self.held.keys().map(|k| k.0).collect()
    }
    fn touch_hi(&mut self, n: u8) {
        if let Some(u) = self.used.get_mut(&n) {
            u.1 = self.now;
        }
    }
    fn touch_both(&mut self, n: u8) {
        self.used.insert(n, (self.now, self.now));
    }
    fn drop_name_if_empty(&mut self, n: u8) {
        if !self.held.keys().any(|k| k.0 == n) {
            self.used.remove(&n);
            self.reinserted.remove(&n);
        }
    }
}

enum Target {
    Raw(Cache),
    Shared(SharedCache),
}

impl Target {
    fn insert(&mut self, rr: &ResourceRecord) {
        match self {
            Target::Raw(c) => c.insert(rr),
            Target::Shared(c) => c.insert(rr),
        }
    }
    fn insert_all(&mut self, rrs: &[ResourceRecord]) {
        match self {
            Target::Raw(c) => {
                for rr in rrs {
                    c.insert(rr);
                }
            }
            Target::Shared(c) => c.insert_all(rrs),
        }
    }
    fn get(&mut self, n: &DomainName, q: QueryType) -> Vec<ResourceRecord> {
        match self {
            Target::Raw(c) => c.get(n, q),
            Target::Shared(c) => c.get(n, q),
        }
    }
    fn get_raw(&mut self, n: &DomainName, q: QueryType) -> Vec<ResourceRecord> {
        match self {
            Target::Raw(c) => c.get_without_checking_expiration(n, q),
            Target::Shared(c) => c.get_without_checking_expiration(n, q),
        }
    }
    fn prune(&mut self) -> (bool, usize, usize, usize) {
        match self {
            Target::Raw(c) => c.prune(),
            Target::Shared(c) => c.prune(),
        }
    }
    fn snapshot(&self) -> VerifSnapshot {
        match self {
            Target::Raw(c) => c.verif_snapshot(),
            Target::Shared(c) => c.verif_snapshot(),
        }
    }
}

fn snapshot_keys(s: &VerifSnapshot) -> Result<BTreeSet<(u8, u8, u8)>, String> {
    let mut out = BTreeSet::new();
    for (name, _t, data, _exp) in &s.entries {
        match key_of(name, data) {
            Some(k) => {
                if !out.insert(k) {
                    return Err(format!("entry {k:?} held twice"));
                }
            }
            None => return Err(format!("cache holds a record that was never inserted: {} {}", show_name(name), show_rdata(data))),
        }
    }
    Ok(out)
}

struct Outcome {
    /// did a prune expire or evict something / did a get see a reduced TTL or skip an expired entry
    interesting: bool,
}

/// Run one history.  `shared`: through SharedCache (TTL 0 is a no-op) or the plain Cache.
/// Violations are reported under `prop` only for the clauses that property owns.
fn run_history(prop: &str, ops: &[Op], desired: usize, shared: bool, coords: &Value, sh: &mut Shard) -> Outcome {
    let c05 = prop == "C05";
    let c15 = prop == "C15";
    let mut model = Model::default();
    model.now = SEC; // start a little after the base
    verif_clock::set_thread_nanos(Some(model.now));
    let mut target = if shared {
        Target::Shared(SharedCache::with_desired_size(desired))
    } else {
        Target::Raw(Cache::with_desired_size(desired))
    };
    let mut interesting = false;
    let replay = |upto: usize| {
        json!({"kind": "cache-history", "coords": coords, "desired_size": desired, "shared": shared,
               "ops": ops[..=upto].iter().map(op_json).collect::<Vec<_>>()})
    };
    let flag = |m: &Model, n: u8| if m.reinserted.contains(&n) { ":name-had-reinsert" } else { "" };

    for (i, op) in ops.iter().enumerate() {
        sh.eval();
        match *op {
            Op::Advance { ns } => {
                model.now = model.now.saturating_add(ns);
                verif_clock::set_thread_nanos(Some(model.now));
            }
            Op::Insert { n, t, v, ttl } => {
                let rr = rr(&name_of(n), data_of(t, v), ttl);
                target.insert(&rr);
                if !(shared && ttl == 0) {
                    let key = (n, t, v);
                    if model.held.contains_key(&key) {
                        model.reinserted.insert(n);
                    }
                    model.held.insert(key, model.now.saturating_add(u64::from(ttl) * SEC));
                    model.touch_both(n);
                }
            }
            Op::InsertAll { k, items } => {
                let batch: Vec<ResourceRecord> = items[..k as usize].iter().map(|(n, t, v, ttl)| rr(&name_of(*n), data_of(*t, *v), *ttl)).collect();
                target.insert_all(&batch);
                for (n, t, v, ttl) in &items[..k as usize] {
                    if !(shared && *ttl == 0) {
                        let key = (*n, *t, *v);
                        if model.held.contains_key(&key) {
                            model.reinserted.insert(*n);
                        }
                        model.held.insert(key, model.now.saturating_add(u64::from(*ttl) * SEC));
                        model.touch_both(*n);
                    }
                }
            }
            Op::Get { n, t } | Op::GetRaw { n, t } => {
                let raw = matches!(op, Op::GetRaw { .. });
                let name = name_of(n);
                let q = qtype_of(t);
                let got = if raw { target.get_raw(&name, q) } else { target.get(&name, q) };
                // what the model holds for this lookup
                let matching: Vec<((u8, u8, u8), u64)> = model
                    .held
                    .iter()
                    .filter(|(k, _)| k.0 == n && (t as usize == N_TYPES || k.1 == t))
                    .map(|(k, e)| (*k, *e))
                    .collect();
                if model.held.keys().any(|k| k.0 == n) {
                    model.touch_hi(n);
                }
                if !got.is_empty() {
                    if let Some(u) = model.used.get_mut(&n) {
                        u.0 = model.now;
                    }
                }
                if c05 {
                    let mut seen = BTreeSet::new();
                    for r in &got {
                        if r.name != name || r.rclass != RecordClass::IN {
                            sh.violation("C05:get:wrong-owner-or-class", format!("lookup of {} returned {}", show_name(&name), show_rr(r)), replay(i));
                            continue;
                        }
                        let Some(key) = key_of(&r.name, &r.rtype_with_data) else {
                            sh.violation("C05:get:changed-data", format!("lookup returned a record never inserted: {}", show_rr(r)), replay(i));
                            continue;
                        };
                        if !seen.insert(key) {
                            sh.violation("C05:get:duplicate-record", format!("lookup returned {} twice", show_rr(r)), replay(i));
                        }
                        if t as usize != N_TYPES && key.1 != t {
                            sh.violation("C05:get:wrong-type", format!("typed lookup returned {}", show_rr(r)), replay(i));
                        }
                        match model.held.get(&key) {
                            None => {
                                sh.violation(
                                    if shared { "C05:get:record-not-held(ttl0-or-evicted-or-expired-and-pruned)" } else { "C05:get:record-not-held" },
                                    format!("lookup returned {} which the model does not hold (never stored, pruned or evicted)", show_rr(r)),
                                    replay(i),
                                );
                            }
                            Some(exp) => {
                                let left = exp.saturating_sub(model.now);
                                if !raw && left == 0 {
                                    sh.violation(
                                        format!("C05:get:served-past-ttl{}", flag(&model, n)),
                                        format!("{} served although its lifetime ended {} ns ago", show_rr(r), model.now - exp),
                                        replay(i),
                                    );
                                } else if u128::from(r.ttl) * u128::from(SEC) > u128::from(left) {
                                    sh.violation(
                                        "C05:get:ttl-exceeds-time-left",
                                        format!("{} reported with ttl {} but only {} ns are left", show_rr(r), r.ttl, left),
                                        replay(i),
                                    );
                                } else if left < u64::from(u32::MAX) * SEC && !raw {
                                    // reduced TTL observed
                                    interesting = true;
                                }
                            }
                        }
                    }
                    // completeness (T3: entries in their last partial second may be missing)
                    for (key, exp) in &matching {
                        let left = exp.saturating_sub(model.now);
                        let must = if raw { true } else { left >= SEC };
                        if must && !seen.contains(key) {
                            sh.violation(
                                format!("C05:get:held-record-missing{}", if raw { ":raw" } else { "" }),
                                format!("{key:?} is held with {left} ns left but the lookup (type index {t}) did not return it"),
                                replay(i),
                            );
                        }
                        if !raw && left == 0 {
                            interesting = true; // an expired-but-unpruned entry was filtered
                        }
                    }
                }
            }
            Op::Prune => {
                let before = match snapshot_keys(&target.snapshot()) {
                    Ok(k) => k,
                    Err(e) => {
                        if c15 {
                            sh.violation("C15:snapshot:malformed-contents", e, replay(i));
                        }
                        return Outcome { interesting };
                    }
                };
                let result = target.prune();
                let snap = target.snapshot();
                let after = match snapshot_keys(&snap) {
                    Ok(k) => k,
                    Err(e) => {
                        if c15 {
                            sh.violation("C15:snapshot:malformed-contents", e, replay(i));
                        }
                        return Outcome { interesting };
                    }
                };
                let now = model.now;
                let model_before: BTreeSet<(u8, u8, u8)> = model.held.keys().copied().collect();
                if c15 && before != model_before {
                    sh.violation(
                        "C15:contents-differ-from-model-before-prune",
                        format!("held before prune: {before:?}, model: {model_before:?}"),
                        replay(i),
                    );
                    return Outcome { interesting };
                }
                let expired: BTreeSet<(u8, u8, u8)> = model.held.iter().filter(|(_, e)| **e <= now).map(|(k, _)| *k).collect();
                let size_before = model.held.len();
                let live: BTreeSet<(u8, u8, u8)> = model_before.difference(&expired).copied().collect();
                let evicted: BTreeSet<(u8, u8, u8)> = live.difference(&after).copied().collect();
                let evicted_names: BTreeSet<u8> = evicted.iter().map(|k| k.0).collect();
                if !expired.is_empty() || !evicted.is_empty() {
                    interesting = true;
                }
                if c15 {
                    // nothing expired may stay
                    if let Some(k) = after.iter().find(|k| expired.contains(k)) {
                        sh.violation(
                            format!("C15:prune:expired-entry-left-behind{}", flag(&model, k.0)),
                            format!("{k:?} expired {} ns ago and is still held after prune(); prune returned {result:?}", now - model.held[k]),
                            replay(i),
                        );
                    }
                    if let Some(k) = after.iter().find(|k| !model_before.contains(k)) {
                        sh.violation("C15:prune:entry-appeared", format!("{k:?} appeared during prune"), replay(i));
                    }
                    // evictions take whole names
                    for n in &evicted_names {
                        if after.iter().any(|k| k.0 == *n) {
                            sh.violation("C15:prune:name-evicted-in-part", format!("name {n} lost some but not all of its live records"), replay(i));
                        }
                    }
                    if after.len() > desired {
                        sh.violation(
                            "C15:prune:over-desired-size-after-prune",
                            format!("{} records held after prune, desired size {desired}", after.len()),
                            replay(i),
                        );
                    }
                    if !evicted.is_empty() {
                        if live.len() <= desired {
                            sh.violation(
                                "C15:prune:evicted-while-not-over-size",
                                format!("{} live records <= desired {desired}, yet {:?} were evicted", live.len(), evicted_names),
                                replay(i),
                            );
                        } else {
                            // minimality: the last eviction was needed
                            let needed = evicted_names.iter().any(|n| {
                                let size_n = evicted.iter().filter(|k| k.0 == *n).count();
                                after.len() + size_n > desired
                            });
                            if !needed {
                                sh.violation("C15:prune:evicted-more-than-needed", format!("evicted names {evicted_names:?}, {} left, desired {desired}", after.len()), replay(i));
                            }
                        }
                        // LRU with honest ambiguity
                        let survivors: BTreeSet<u8> = after.iter().map(|k| k.0).collect();
                        for e in &evicted_names {
                            for s in &survivors {
                                let lo_e = model.used.get(e).map_or(0, |u| u.0);
                                let hi_s = model.used.get(s).map_or(u64::MAX, |u| u.1);
                                if lo_e > hi_s {
                                    sh.violation(
                                        "C15:prune:not-least-recently-used",
                                        format!("evicted name {e} was used at >= {lo_e} ns, surviving name {s} last used at <= {hi_s} ns"),
                                        replay(i),
                                    );
                                }
                            }
                        }
                    }
                    let want = (size_before > desired, after.len(), expired.len(), evicted.len());
                    if result != want {
                        let which = if result.0 != want.0 {
                            "overflow-flag"
                        } else if result.2 != want.2 {
                            "expired-count"
                        } else if result.3 != want.3 {
                            "pruned-count"
                        } else {
                            "size"
                        };
                        sh.violation(
                            format!("C15:prune:wrong-report:{which}"),
                            format!("prune() returned {result:?}; observed (overflow, size, expired, evicted) = {want:?}"),
                            replay(i),
                        );
                    }
                }
                // model follows what was observed to be evicted (C05 needs to know what is still held)
                for k in expired.iter().chain(evicted.iter()) {
                    model.held.remove(k);
                }
                for k in after.iter() {
                    // entries the implementation kept although expired stay in the model as held
                    // (they were reported above under C15); nothing to do
                    let _ = k;
                }
                let names: Vec<u8> = model.used.keys().copied().collect();
                for n in names {
                    model.drop_name_if_empty(n);
                }
                // an entry kept although expired: keep the model consistent with the cache
                for k in after.iter().filter(|k| expired.contains(k)) {
                    model.held.insert(*k, 0);
                    model.used.entry(k.0).or_insert((0, now));
                }
            }
        }
        // quiescent point: structural self-check and size accounting
        if c15 && (i % 7 == 0 || matches!(op, Op::Prune) || i + 1 == ops.len()) {
            let snap = target.snapshot();
            if let Some(p) = snap.problems.first() {
                let kind = if p.contains("next_expiry is not the minimum") {
                    "next_expiry-not-minimum"
                } else if p.contains("current_size") {
                    "current_size-wrong"
                } else if p.contains("size field") {
                    "partition-size-wrong"
                } else if p.contains("queue") || p.contains("priority") {
                    "queue-out-of-step"
                } else if p.contains("duplicate") {
                    "duplicate-entry"
                } else {
                    "other"
                };
                let had = snap
                    .partitions
                    .iter()
                    .filter_map(|(n, ..)| (0..N_NAMES as u8).find(|i| &name_of(*i) == n))
                    .any(|n| model.reinserted.contains(&n));
                sh.violation(
                    format!("C15:selfcheck:{kind}{}", if had { ":name-had-reinsert" } else { "" }),
                    format!("structural self-check failed: {:?}", snap.problems),
                    replay(i),
                );
                return Outcome { interesting };
            }
            match snapshot_keys(&snap) {
                Ok(keys) => {
                    let want: BTreeSet<(u8, u8, u8)> = model.held.keys().copied().collect();
                    if keys != want {
                        sh.violation(
                            "C15:contents-differ-from-model",
                            format!("held: {keys:?}; model: {want:?}"),
                            replay(i),
                        );
                        return Outcome { interesting };
                    }
                    if snap.current_size != keys.len() {
                        sh.violation(
                            "C15:record-count-differs-from-distinct-entries",
                            format!("current_size {} but {} distinct entries", snap.current_size, keys.len()),
                            replay(i),
                        );
                    }
                }
                Err(e) => {
                    sh.violation("C15:snapshot:malformed-contents", e, replay(i));
                    return Outcome { interesting };
                }
            }
        }
    }
    Outcome { interesting }
}

fn hash_history(ops: &[Op], desired: usize, shared: bool) -> u64 {
    let mut h = fnv_mix(desired as u64, shared as u64);
    for op in ops {
        let code = match *op {
            Op::Insert { n, t, v, ttl } => 1 | u64::from(n) << 8 | u64::from(t) << 16 | u64::from(v) << 24 | u64::from(ttl) << 32,
            Op::InsertAll { k, items } => items[..k as usize].iter().fold(6u64, |acc, (n, t, v, ttl)| fnv_mix(acc, u64::from(*n) << 8 | u64::from(*t) << 16 | u64::from(*v) << 24 | u64::from(*ttl) << 32)),
            Op::Get { n, t } => 2 | u64::from(n) << 8 | u64::from(t) << 16,
            Op::GetRaw { n, t } => 3 | u64::from(n) << 8 | u64::from(t) << 16,
            Op::Prune => 4,
            Op::Advance { ns } => 5 ^ ns.rotate_left(8),
        };
        h = fnv_mix(h, code);
    }
    h
}

// ---------------------------------------------------------------------------
// threads: conservation and visibility on SharedCache

struct ThreadReport {
    threads: usize,
    inserted: u64,
    gets: u64,
    got_records: u64,
    prunes: u64,
    expired: u64,
    pruned: u64,
    final_size: u64,
    problems: Vec<String>,
}

fn thread_run(nthreads: usize, ops_per_thread: u64, nnames: usize, desired: usize, seed: u64) -> ThreadReport {
    verif_clock::set_thread_nanos(None);
    verif_clock::set_global_nanos(Some(SEC));
    let cache = SharedCache::with_desired_size(desired);
    let clock = Arc::new(AtomicU64::new(SEC));
    let seq = Arc::new(AtomicU64::new(1));
    // value id -> sequence number taken just before its insert call
    let insert_seq: Arc<Vec<Mutex<Vec<u64>>>> = Arc::new((0..nthreads).map(|_| Mutex::new(Vec::new())).collect());
    let barrier = Arc::new(Barrier::new(nthreads));
    let totals = Arc::new(Mutex::new((0u64, 0u64, 0u64, 0u64, 0u64, 0u64, Vec::<String>::new())));
    let rounds = 4u64;
    std::thread::scope(|s| {
        for ti in 0..nthreads {
            let cache = cache.clone();
            let clock = clock.clone();
            let seq = seq.clone();
            let insert_seq = insert_seq.clone();
            let barrier = barrier.clone();
            let totals = totals.clone();
            s.spawn(move || {
                let mut rng = Rng::new(seed).fork(0x7700 + ti as u64);
                let (mut inserted, mut gets, mut got_records, mut prunes, mut expired, mut pruned) = (0u64, 0u64, 0u64, 0u64, 0u64, 0u64);
                let mut problems = Vec::new();
                let mut counter = 0u64;
                for round in 0..rounds {
                    for _ in 0..(ops_per_thread / rounds) {
                        let name = dn(&format!("t{}.threads.test.", rng.below(nnames)));
                        match rng.below(100) {
                            0..=44 => {
                                // globally unique value: thread id + counter
                                let val = format!("{ti}-{counter}");
                                let s0 = seq.fetch_add(1, Ordering::SeqCst);
                                insert_seq[ti].lock().unwrap().push(s0);
                                counter += 1;
                                cache.insert(&rr(&name, txt(val.as_bytes()), rng.range(1, 6) as u32));
                                inserted += 1;
                            }
                            45..=84 => {
                                let q = if rng.bool() { QueryType::Wildcard } else { qt(RecordType::TXT) };
                                let got = cache.get(&name, q);
                                let s1 = seq.fetch_add(1, Ordering::SeqCst);
                                gets += 1;
                                for r in got {
                                    got_records += 1;
                                    if let RecordTypeWithData::TXT { octets } = &r.rtype_with_data {
                                        let text = String::from_utf8_lossy(octets).to_string();
                                        let mut it = text.split('-');
                                        let (Some(a), Some(b)) = (it.next().and_then(|x| x.parse::<usize>().ok()), it.next().and_then(|x| x.parse::<usize>().ok())) else {
                                            problems.push(format!("get returned a value nobody inserted: {text}"));
                                            continue;
                                        };
                                        let s0 = insert_seq.get(a).and_then(|m| m.lock().unwrap().get(b).copied());
                                        match s0 {
                                            Some(s0) if s0 < s1 => {}
                                            Some(s0) => problems.push(format!("value {text} returned by a get that finished (seq {s1}) before its insert began (seq {s0})")),
                                            None => problems.push(format!("get returned a value nobody inserted: {text}")),
                                        }
                                    } else {
                                        problems.push(format!("get returned a non-TXT record: {}", show_rr(&r)));
                                    }
                                }
                            }
                            85..=92 => {
                                let (_, _, e, p) = cache.prune();
                                prunes += 1;
                                expired += e as u64;
                                pruned += p as u64;
                            }
                            _ => {
                                // single writer, so the virtual clock is monotonic like the real one
                                if ti == 0 {
                                    let d = rng.range(1, 700) as u64 * 1_000_000 * nthreads as u64;
                                    let t = clock.fetch_add(d, Ordering::SeqCst) + d;
                                    verif_clock::set_global_nanos(Some(t));
                                } else {
                                    std::thread::yield_now();
                                }
                            }
                        }
                    }
                    // barrier: quiescent point
                    barrier.wait();
                    if ti == 0 {
                        let snap = cache.verif_snapshot();
                        if !snap.problems.is_empty() {
                            problems.push(format!("round {round}: self-check: {:?}", snap.problems));
                        }
                        if snap.current_size != snap.entries.len() {
                            problems.push(format!("round {round}: current_size {} != {} entries", snap.current_size, snap.entries.len()));
                        }
                    }
                    barrier.wait();
                }
                let mut t = totals.lock().unwrap();
                t.0 += inserted;
                t.1 += gets;
                t.2 += got_records;
                t.3 += prunes;
                t.4 += expired;
                t.5 += pruned;
                t.6.extend(problems);
            });
        }
    });
    let snap = cache.verif_snapshot();
    let t = totals.lock().unwrap();
    let mut problems = t.6.clone();
    let final_size = snap.entries.len() as u64;
    // conservation: every value inserted once (unique values, ttl > 0) is either still held or was
    // counted by exactly one prune
    if t.0 != final_size + t.4 + t.5 {
        problems.push(format!(
            "conservation: inserted {} != held {} + expired {} + evicted {}",
            t.0, final_size, t.4, t.5
        ));
    }
    verif_clock::set_global_nanos(None);
    ThreadReport {
        threads: nthreads,
        inserted: t.0,
        gets: t.1,
        got_records: t.2,
        prunes: t.3,
        expired: t.4,
        pruned: t.5,
        final_size,
        problems,
    }
}

// ---------------------------------------------------------------------------

/// C05, resolver leg: a recursive resolution against a generated universe at virtual time t0, the same
/// question again a little later (must come from the cache: no upstream exchange, TTLs reduced, never above
/// what is left), and again after the shortest TTL of the answer has elapsed (must be fetched again).
fn resolver_leg(rng: &mut Rng, sim: &mut verif_harness::netsim::Sim, sh: &mut Shard) {
    use dns_resolver::util::types::ProtocolMode;
    use verif_harness::netsim::{encode, reply_to, Action, Ctx, Mode, Responder};
    use verif_harness::universe::{self, GenCfg};
    let cfg = GenCfg {
        max_depth: rng.range(1, 3),
        max_zones: rng.range(2, 6),
        v4_only: 4,
        v6_only: 0,
        allow_glueless: rng.bool(),
        cname_chains: rng.below(3),
    };
    let u = Arc::new(universe::generate(rng, &cfg));
    let mut zones = dns_types::zones::types::Zones::new();
    zones.insert(u.hints_zone());
    let cache = SharedCache::new();
    let mode = Mode::recursive(ProtocolMode::OnlyV4, 53);
    let responder = |u: Arc<universe::Universe>| -> Responder {
        Box::new(move |ctx: &Ctx| {
            let Some(req) = ctx.request else { return (Action::Fail, "bad".into()) };
            let r = u.serve(ctx.addr.ip(), &req.questions[0]);
            (Action::Reply(encode(&reply_to(req, r.rcode, r.aa, r.answers, r.authority, r.additional))), r.kind.to_string())
        })
    };
    let Some(q) = universe::questions(rng, &u, 6).into_iter().find(|q| {
        let e = u.expected(&q.name, q.qtype);
        // nothing the local hints zone answers by itself (its records do not age)
        let local = |n: &DomainName| n.is_root() || u.host_by_name(n).is_some_and(|h| u.zones[0].ns_hosts.contains(&h));
        // direct answers only: alias chains and name-server hosts are re-learnt piecemeal (glue re-insertion restarts a lifetime)
        !e.finals.is_empty() && e.chain.is_empty() && u.host_by_name(&q.name).is_none() && !e.finals.iter().any(|r| local(&r.name))
    }) else {
        return;
    };
    let want = u.expected(&q.name, q.qtype);
    let mut now: u64 = 10 * SEC;
    verif_clock::set_thread_nanos(Some(now));
    sh.eval();
    let first = sim.resolve(responder(u.clone()), &mode, &zones, &cache, &q);
    let replay = |stage: &str, detail: String| json!({"kind": "resolver-cache-leg", "stage": stage, "question": question_json(&q), "universe": u.describe(), "detail": detail});
    let Ok(Ok(r1)) = &first.result else {
        sh.count("resolver-leg:first-resolution-failed(see C07)", 1);
        return;
    };
    let rrs1 = r1.clone().rrs();
    if first.log.is_empty() || rrs1.is_empty() {
        return;
    }
    let min_ttl = want.chain.iter().chain(want.finals.iter()).map(|r| r.ttl).min().unwrap_or(60);
    // a little later: from the cache, with reduced TTLs
    let d1 = rng.range(1, (min_ttl - 1).max(1) as usize) as u64;
    now += d1 * SEC + rng.below(900) as u64 * 1_000_000;
    verif_clock::set_thread_nanos(Some(now));
    sh.eval();
    let second = sim.resolve(responder(u.clone()), &mode, &zones, &cache, &q);
    match &second.result {
        Ok(Ok(r2)) => {
            let rrs2 = r2.clone().rrs();
            if !second.log.is_empty() {
                // in its last partial second the entry is no longer served (T3) and was fetched again: the lifetime restarted
                sh.count("resolver-leg:second-ask-went-upstream", 1);
                return;
            } else {
                sh.nontrivial(fnv_mix(verif_harness::rng::fnv(show_name(&q.name).as_bytes()), d1));
                sh.count("resolver-leg:served-from-cache-with-reduced-ttl", 1);
                for r in &rrs2 {
                    let Some(orig) = want.chain.iter().chain(want.finals.iter()).find(|w| w.name == r.name && w.rtype_with_data == r.rtype_with_data) else {
                        sh.violation("C05:resolver:cached-answer-holds-unknown-record", show_rr(r), replay("second", format!("after {d1} s")));
                        return;
                    };
                    let elapsed_ns = now - 10 * SEC;
                    let left_ns = (u64::from(orig.ttl) * SEC).saturating_sub(elapsed_ns);
                    if u64::from(r.ttl) * SEC > left_ns {
                        sh.violation(
                            "C05:resolver:ttl-of-cached-answer-exceeds-time-left",
                            format!("{} served {} s after it was learnt with ttl {}", show_rr(r), elapsed_ns / SEC, orig.ttl),
                            replay("second", format!("elapsed {elapsed_ns} ns")),
                        );
                        return;
                    }
                }
            }
        }
        _ => sh.count("resolver-leg:second-resolution-failed", 1),
    }
    // after the shortest TTL has run out: the expired record must not be served; the resolver has to ask again
    // (after the *longest* TTL of the RRset: generated RRsets may mix TTLs, and the part still alive is legitimately served)
    let max_ttl = want.finals.iter().map(|r| r.ttl).max().unwrap_or(min_ttl);
    now = 10 * SEC + u64::from(max_ttl) * SEC + rng.below(3) as u64 * SEC;
    verif_clock::set_thread_nanos(Some(now));
    sh.eval();
    let third = sim.resolve(responder(u.clone()), &mode, &zones, &cache, &q);
    if let Ok(Ok(r3)) = &third.result {
        let rrs3 = r3.clone().rrs();
        if third.log.is_empty() && !rrs3.is_empty() {
            sh.violation(
                "C05:resolver:answer-served-from-cache-after-its-ttl-elapsed",
                format!("no upstream exchange {} s after the answer (longest ttl {max_ttl}) was learnt", (now - 10 * SEC) / SEC),
                replay("third", format!("answer {}", serde_json::to_string(&rrs_json(&rrs3)).unwrap_or_default())),
            );
            return;
        }
        sh.count("resolver-leg:refetched-after-expiry", 1);
    }
}

/// C05, alias leg: a question whose answer starts with a CNAME link learnt from upstream.  Once the TTL of that first
/// link has elapsed (its target may well still be alive, and nothing has pruned the cache), the link is no longer a
/// record the cache may serve: the resolver has to put the question name to an upstream server again.  An answer that
/// still opens with the link and was produced without any exchange about the question name served it from the cache.
fn alias_leg(rng: &mut Rng, sim: &mut verif_harness::netsim::Sim, sh: &mut Shard) {
    use dns_resolver::util::types::ProtocolMode;
    use verif_harness::netsim::{encode, reply_to, Action, Ctx, Mode, Responder};
    use verif_harness::universe::{self, GenCfg};
    let cfg = GenCfg {
        max_depth: rng.range(1, 3),
        max_zones: rng.range(2, 6),
        v4_only: 4,
        v6_only: 0,
        allow_glueless: rng.bool(),
        cname_chains: rng.range(2, 4),
    };
    let u = Arc::new(universe::generate(rng, &cfg));
    let mut zones = dns_types::zones::types::Zones::new();
    zones.insert(u.hints_zone());
    let cache = SharedCache::new();
    let mode = Mode::recursive(ProtocolMode::OnlyV4, 53);
    let responder = |u: Arc<universe::Universe>| -> Responder {
        Box::new(move |ctx: &Ctx| {
            let Some(req) = ctx.request else { return (Action::Fail, "bad".into()) };
            let r = u.serve(ctx.addr.ip(), &req.questions[0]);
            (Action::Reply(encode(&reply_to(req, r.rcode, r.aa, r.answers, r.authority, r.additional))), r.kind.to_string())
        })
    };
    let Some(q) = universe::questions(rng, &u, 24).into_iter().find(|q| {
        let e = u.expected(&q.name, q.qtype);
        !e.chain.is_empty() && !e.finals.is_empty() && u.host_by_name(&q.name).is_none() && e.chain[0].name == q.name
    }) else {
        sh.count("alias-leg:no-alias-question-in-universe", 1);
        return;
    };
    let want = u.expected(&q.name, q.qtype);
    let head = want.chain[0].clone();
    let t0: u64 = 10 * SEC;
    verif_clock::set_thread_nanos(Some(t0));
    sh.eval();
    let first = sim.resolve(responder(u.clone()), &mode, &zones, &cache, &q);
    let Ok(Ok(r1)) = &first.result else {
        sh.count("alias-leg:first-resolution-failed(see C07)", 1);
        return;
    };
    let asked_head = |log: &[verif_harness::netsim::Exchange]| log.iter().any(|x| x.request.as_ref().is_some_and(|m| m.questions.first().is_some_and(|qq| qq.name == q.name)));
    if !asked_head(&first.log) || !r1.clone().rrs().iter().any(|r| r.name == head.name && r.rtype_with_data == head.rtype_with_data) {
        sh.count("alias-leg:first-answer-not-learnt-upstream", 1);
        return;
    }
    // the first link's lifetime is over (by 0..2 s and a fraction); what lies behind it may be alive or not
    let now = t0 + u64::from(head.ttl) * SEC + rng.below(3) as u64 * SEC + rng.below(900) as u64 * 1_000_000;
    verif_clock::set_thread_nanos(Some(now));
    sh.eval();
    let second = sim.resolve(responder(u.clone()), &mode, &zones, &cache, &q);
    let replay = |detail: String| json!({"kind": "resolver-cache-alias-leg", "question": question_json(&q), "universe": u.describe(), "detail": detail});
    match &second.result {
        Ok(Ok(r2)) => {
            let rrs2 = r2.clone().rrs();
            let target_alive = want.finals.iter().any(|r| r.ttl > head.ttl + 3) || want.chain.iter().skip(1).any(|r| r.ttl > head.ttl + 3);
            if rrs2.iter().any(|r| r.name == head.name && r.rtype_with_data == head.rtype_with_data) && !asked_head(&second.log) {
                sh.violation(
                    "C05:resolver:alias-link-served-from-cache-after-its-ttl-elapsed",
                    format!("{} (ttl {}) answered {} ms after it was learnt without asking upstream about its owner", show_rr(&head), head.ttl, (now - t0) / 1_000_000),
                    replay(format!("answer {}", serde_json::to_string(&rrs_json(&rrs2)).unwrap_or_default())),
                );
                return;
            }
            sh.nontrivial(fnv_mix(verif_harness::rng::fnv(show_name(&q.name).as_bytes()), u64::from(head.ttl)));
            sh.count(if target_alive { "alias-leg:link-refetched-while-what-follows-was-still-cached" } else { "alias-leg:link-refetched-after-expiry" }, 1);
        }
        _ => sh.count("alias-leg:second-resolution-failed", 1),
    }
}

fn engine(args: Args) {
    quiet_panics();
    let prop = args.prop.clone();
    let rule = if prop == "C05" {
        "histories of 200..2000 operations (insert / re-insert with another TTL / typed, ANY and unchecked lookups / prune / \
         clock advance by 1 ns .. 1 h) over 6 names x 5 types x 4 values, TTLs {0,1,2,5,60,2^32-1} and smaller sets, cache \
         sizes 1..20 and 512, through Cache and SharedCache, under the virtual clock; every lookup result judged by a \
         sequential model (soundness, TTL <= time left, no duplicates, completeness with tolerance T3). non-trivial = a \
         history in which a lookup observed a reduced TTL or skipped an expired-but-unpruned entry; distinct = distinct histories."
    } else {
        "same histories as C05 plus targeted re-insert scenarios; at every prune: exact expired/evicted/remaining numbers, \
         whole-name eviction, only while over size, minimality, LRU with honest ambiguity (lo(evicted) > hi(survivor) is a \
         violation); every 7 operations and after each prune: structural self-check (H4) and contents == model; plus \
         SharedCache used from 2, 4 and 8 threads with globally unique values (conservation: inserted = held + expired + \
         evicted; every value returned was inserted before the get returned). non-trivial = a history with at least one \
         prune that expired or evicted something; distinct = distinct histories."
    };
    let mut run = Run::new(args.clone(), "exploration", rule);
    run.assume("the clock hook (verif_clock) replaces Instant::now() inside cache.rs only; TTL arithmetic is otherwise the production code");
    if prop == "C05" {
        run.assume("T3: an entry in its last partial second (0 < left < 1 s) may be missing from get(); it must never be present with left <= 0");
    } else {
        run.assume("LRU ambiguity: lookups that return nothing may or may not count as a use; ties in time are ties");
    }
    let seed = args.seed;
    let n_hist = args.size(60_000, 1_500_000);
    let targeted = targeted_histories();

    run.parallel(THREADS, 8 << 20, |ti, sh| {
        let mut rng = Rng::new(seed).fork(0x0500 + ti as u64);
        // targeted scenarios with several sizes and both front ends
        for (hi, h) in targeted.iter().enumerate() {
            if hi % THREADS != ti {
                continue;
            }
            for desired in [1usize, 2, 3, 512] {
                for shared in [false, true] {
                    let coords = json!({"class": "targeted", "index": hi});
                    let o = run_history(&prop, h, desired, shared, &coords, sh);
                    if o.interesting {
                        sh.nontrivial(hash_history(h, desired, shared));
                    }
                    sh.count("histories:targeted", 1);
                }
            }
        }
        for k in 0..(n_hist / THREADS as u64) {
            let len = match rng.below(10) {
                0 => rng.range(1000, 2000),
                _ => rng.range(200, 600),
            };
            let profile = rng.below(6);
            let ops = gen_history(&mut rng, len, profile);
            let desired = match rng.below(5) {
                0 => 512,
                _ => rng.range(1, 20),
            };
            let shared = rng.bool();
            let coords = json!({"class": "random", "thread": ti, "k": k});
            let res = catch(std::panic::AssertUnwindSafe(|| run_history(&prop, &ops, desired, shared, &coords, sh)));
            match res {
                Ok(o) => {
                    if o.interesting {
                        sh.nontrivial(hash_history(&ops, desired, shared));
                    }
                }
                Err(msg) => {
                    sh.violation(
                        format!("{prop}:panic-in-cache"),
                        format!("cache operation panicked: {msg}"),
                        json!({"kind": "cache-history", "coords": coords, "desired_size": desired, "shared": shared, "ops": ops.iter().map(op_json).collect::<Vec<_>>()}),
                    );
                }
            }
            sh.count("histories:random", 1);
            sh.count(if shared { "front-end:SharedCache" } else { "front-end:Cache" }, 1);
            if sh.want_sample() && k == 3 {
                sh.sample(json!({"desired_size": desired, "shared": shared, "ops_total": ops.len(), "first_ops": ops.iter().take(25).map(op_json).collect::<Vec<_>>()}));
            }
        }
        verif_clock::set_thread_nanos(None);
    });

    if prop == "C05" {
        // resolver leg: what the resolver learnt from upstream is served from the cache with a reduced TTL before
        // it expires, and fetched again afterwards
        let n_univ = args.size(3_000, 60_000);
        run.parallel(THREADS, 2 << 20, |ti, sh| {
            let mut rng = Rng::new(seed).fork(0x05e5 + ti as u64);
            let mut sim = verif_harness::netsim::Sim::new();
            for _ in 0..(n_univ / THREADS as u64) {
                resolver_leg(&mut rng, &mut sim, sh);
                alias_leg(&mut rng, &mut sim, sh);
            }
            verif_clock::set_thread_nanos(None);
        });
    }
    if prop == "C15" {
        // thread leg (sequential runs, each internally parallel)
        let mut sh = Shard::new();
        let runs = args.size(3, 60);
        let mut reports = Vec::new();
        for r in 0..runs {
            let nthreads = [2usize, 4, 8][(r % 3) as usize];
            let rep = thread_run(nthreads, args.tier.pick(40_000, 100_000), [4usize, 8, 16][((r / 3) % 3) as usize], [8usize, 64, 512][((r / 9) % 3) as usize], seed.wrapping_add(r));
            sh.eval();
            sh.count("thread_runs", 1);
            sh.count("thread_ops_inserts", rep.inserted);
            sh.count("thread_ops_gets", rep.gets);
            sh.count("thread_get_records_checked", rep.got_records);
            sh.count("thread_prunes", rep.prunes);
            sh.count("thread_expired_total", rep.expired);
            sh.count("thread_evicted_total", rep.pruned);
            if rep.expired > 0 && rep.pruned > 0 {
                sh.nontrivial(fnv_mix(0x7eed, r));
            }
            for p in &rep.problems {
                let sig = if p.starts_with("conservation") {
                    "C15:threads:conservation-broken"
                } else if p.contains("self-check") || p.contains("current_size") {
                    "C15:threads:self-check-failed"
                } else {
                    "C15:threads:get-returned-unknown-or-future-value"
                };
                sh.violation(sig, p.clone(), json!({"kind": "thread-run", "threads": rep.threads, "seed": seed.wrapping_add(r) as i64}));
            }
            if reports.len() < 3 {
                reports.push(json!({"threads": rep.threads, "inserted": rep.inserted, "gets": rep.gets, "records_returned": rep.got_records,
                                     "prunes": rep.prunes, "expired": rep.expired, "evicted": rep.pruned, "held_at_end": rep.final_size}));
            }
        }
        run.set_extra("thread_runs_observed", Value::Array(reports));
        run.merge(sh);
    }
    run.finish(200);
}

fn replay(args: &Args, path: &std::path::Path) {
    let text = std::fs::read_to_string(path).expect("read replay");
    let v: Value = serde_json::from_str(&text).expect("json");
    let case = &v["case"];
    let Some(arr) = case["ops"].as_array() else {
        println!("not a cache-history witness: {case}");
        return;
    };
    let ops: Vec<Op> = arr.iter().filter_map(op_from_json).collect();
    let desired = case["desired_size"].as_u64().unwrap_or(512) as usize;
    let shared = case["shared"].as_bool().unwrap_or(false);
    let mut sh = Shard::new();
    run_history(&args.prop, &ops, desired, shared, &json!("replay"), &mut sh);
    for v in &sh.violations {
        println!("REPLAY VIOLATION {}: {}", v.signature, v.what);
    }
    if sh.violations.is_empty() {
        println!("REPLAY: no violation on this history ({} ops)", ops.len());
    }
}

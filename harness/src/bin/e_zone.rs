//! Engine E2: zone lookup (C02).  Zone::resolve vs the flat reference model.

use dns_types::protocol::types::*;
use dns_types::zones::types::{Zone, ZoneResult, SOA};
use serde_json::{json, Value};
use std::net::Ipv4Addr;

use verif_harness::names::*;
use verif_harness::refmodel::zone::*;
use verif_harness::rng::{fnv, fnv_mix, Rng};
use verif_harness::run::{catch, quiet_panics, Args, Run, Shard};

const THREADS: usize = 16;

fn main() {
    let args = Args::parse();
    if args.prop != "C02" {
        eprintln!("e_zone serves C02");
        std::process::exit(2);
    }
    if let Some(p) = args.replay.clone() {
        replay(&p);
        return;
    }
    c02(args);
}

/// Build the real zone from the flat description (through the public insertion API).
pub fn build_zone(fz: &FlatZone) -> Zone {
    let soa = fz.soa.as_ref().map(|s| SOA {
        mname: s.mname.clone(),
        rname: s.rname.clone(),
        serial: s.serial,
        refresh: s.refresh,
        retry: s.retry,
        expire: s.expire,
        minimum: s.minimum,
    });
    let mut z = Zone::new(fz.apex.clone(), soa);
    for r in &fz.recs {
        if r.wildcard {
            z.insert_wildcard(&r.owner, r.data.clone(), r.ttl);
        } else {
            z.insert(&r.owner, r.data.clone(), r.ttl);
        }
    }
    z
}

fn kind_ref(r: &RefResult) -> &'static str {
    match r {
        RefResult::Answer(v) if v.is_empty() => "EmptyAnswer",
        RefResult::Answer(_) => "Answer",
        RefResult::Cname(_) => "CNAME",
        RefResult::Referral(_) => "Referral",
        RefResult::NameError => "NameError",
    }
}

fn kind_impl(r: &ZoneResult) -> &'static str {
    match r {
        ZoneResult::Answer { rrs } if rrs.is_empty() => "EmptyAnswer",
        ZoneResult::Answer { .. } => "Answer",
        ZoneResult::CNAME { .. } => "CNAME",
        ZoneResult::Delegation { .. } => "Referral",
        ZoneResult::NameError => "NameError",
    }
}

fn flat_json(fz: &FlatZone) -> Value {
    json!({
        "apex": show_name(&fz.apex),
        "soa_minimum": fz.soa.as_ref().map(|s| s.minimum),
        "records": fz.recs.iter().map(|r| format!("{}{} {} {}", if r.wildcard { "*." } else { "" }, show_name(&r.owner), r.ttl, show_rdata(&r.data))).collect::<Vec<_>>(),
    })
}

/// Compare one lookup.  Returns true if non-trivial (anything but a plain NameError on an empty zone).
fn check_lookup(fz: &FlatZone, zone: &Zone, qname: &DomainName, qtype: QueryType, coords: &Value, sh: &mut Shard) -> bool {
    sh.eval();
    let Some(want) = fz.lookup(qname, qtype) else { return false };
    let got = catch(|| zone.resolve(qname, qtype));
    let replay = || json!({"kind": "zone-lookup", "coords": coords, "zone": flat_json(fz), "qname": show_name(qname), "qtype": format!("{qtype}")});
    let nontrivial = want != RefResult::NameError;
    let got = match got {
        Ok(Some(g)) => g,
        Ok(None) => {
            sh.violation("C02:resolve-returned-none-for-name-under-apex", "Zone::resolve returned None for a name under the apex", replay());
            return nontrivial;
        }
        Err(msg) => {
            sh.violation("C02:lookup-panic", format!("Zone::resolve panicked: {msg}"), replay());
            return nontrivial;
        }
    };
    sh.count(&format!("expected:{}", kind_ref(&want)), 1);
    let same = match (&got, &want) {
        (ZoneResult::Answer { rrs }, RefResult::Answer(w)) => same_multiset(rrs, w),
        (ZoneResult::CNAME { cname, rr }, RefResult::Cname(w)) => {
            rr == w && matches!(&rr.rtype_with_data, RecordTypeWithData::CNAME { cname: c } if c == cname)
        }
        (ZoneResult::Delegation { ns_rrs }, RefResult::Referral(w)) => same_multiset(ns_rrs, w),
        (ZoneResult::NameError, RefResult::NameError) => true,
        _ => false,
    };
    if !same {
        let at_apex = same_name(qname, &fz.apex);
        let apex_ns = fz
            .recs
            .iter()
            .any(|r| !r.wildcard && same_name(&r.owner, &fz.apex) && matches!(r.data, RecordTypeWithData::NS { .. }));
        let sig = if kind_ref(&want) == kind_impl(&got) {
            format!("C02:{}-content-differs", kind_ref(&want))
        } else {
            format!(
                "C02:expected-{}:got-{}:{}{}",
                kind_ref(&want),
                kind_impl(&got),
                if at_apex { "qname=apex" } else { "qname-below-apex" },
                if apex_ns { ":apex-has-NS" } else { "" }
            )
        };
        sh.violation(
            sig,
            format!("Zone::resolve({}, {qtype}) = {got:?}, reference says {want:?}", show_name(qname)),
            replay(),
        );
    }
    nontrivial
}

// ---------------------------------------------------------------------------
// (a) exhaustive small scope

#[derive(Copy, Clone, Debug, PartialEq, Eq)]
enum Content {
    A,
    Txt,
    Cname,
    Ns,
    ACname,
    ATxt,
    NsA,
}

const NORMAL_CONTENTS: [Content; 7] = [Content::A, Content::Txt, Content::Cname, Content::Ns, Content::ACname, Content::ATxt, Content::NsA];
const WILD_CONTENTS: [Content; 5] = [Content::A, Content::Txt, Content::Cname, Content::ACname, Content::ATxt];

/// relative owner labels of the 6 normal slots and 3 wildcard slots
const NORMAL_SLOTS: [&[&str]; 6] = [&[], &["a"], &["b"], &["a", "a"], &["b", "a"], &["a", "b"]];
const WILD_SLOTS: [&[&str]; 3] = [&[], &["a"], &["b"]];

fn below(apex: &DomainName, rel: &[&str]) -> DomainName {
    let mut ls: Vec<Label> = rel.iter().map(|l| label(l.as_bytes())).collect();
    ls.extend_from_slice(&apex.labels);
    DomainName::from_labels(ls).unwrap()
}

fn contents_to_recs(owner: &DomainName, wildcard: bool, c: Content, slot: usize, target: &DomainName, out: &mut Vec<FlatRec>) {
    let s = slot as u8;
    let mut push = |data: RecordTypeWithData, ttl: u32| {
        out.push(FlatRec {
            owner: owner.clone(),
            wildcard,
            data,
            ttl,
        })
    };
    let a1 = a(Ipv4Addr::new(10, 0, s, 1));
    let t1 = txt(format!("slot{slot}").as_bytes());
    match c {
        Content::A => push(a1, 300),
        Content::Txt => push(t1, 30),
        Content::Cname => push(cname(target), 300),
        Content::Ns => push(ns(target), 300),
        Content::ACname => {
            push(a1, 300);
            push(cname(target), 7);
        }
        Content::ATxt => {
            push(a1, 300);
            push(t1, 30);
        }
        Content::NsA => {
            push(ns(target), 300);
            push(a1, 300);
        }
    }
}

fn is_ns(c: Content) -> bool {
    matches!(c, Content::Ns | Content::NsA)
}

/// D1: nothing beneath, and no wildcard at, a non-apex NS owner.
fn respects_d1(normal: &[Option<Content>; 6], wild: &[Option<Content>; 3]) -> bool {
    // slot 1 = a: beneath it are slots 3 (a.a), 4 (b.a), wildcard 1 (*.a)
    if normal[1].is_some_and(is_ns) && (normal[3].is_some() || normal[4].is_some() || wild[1].is_some()) {
        return false;
    }
    // slot 2 = b: beneath it slot 5 (a.b), wildcard 2 (*.b)
    if normal[2].is_some_and(is_ns) && (normal[5].is_some() || wild[2].is_some()) {
        return false;
    }
    true
}

fn small_qnames(apex: &DomainName) -> Vec<DomainName> {
    let mut out = vec![apex.clone()];
    let abc = ["a", "b", "c"];
    for x in abc {
        out.push(below(apex, &[x]));
        for y in abc {
            out.push(below(apex, &[y, x]));
            for z in abc {
                out.push(below(apex, &[z, y, x]));
            }
        }
    }
    // depth-4 probes
    for p in [["a", "a", "a", "a"], ["c", "a", "a", "a"], ["c", "c", "b", "a"], ["a", "c", "a", "b"], ["c", "c", "c", "c"], ["b", "a", "a", "b"]] {
        out.push(below(apex, &p));
    }
    out
}

fn qtypes() -> Vec<QueryType> {
    vec![
        qt(RecordType::A),
        qt(RecordType::TXT),
        qt(RecordType::NS),
        qt(RecordType::CNAME),
        qt(RecordType::SOA),
        QueryType::Wildcard,
        QueryType::AXFR,
        QueryType::MAILA,
        QueryType::MAILB,
    ]
}

fn mk_soa(apex: &DomainName, minimum: u32) -> FlatSoa {
    FlatSoa {
        mname: below(apex, &["mname"]),
        rname: dn("hostmaster.invalid."),
        serial: 7,
        refresh: 1,
        retry: 2,
        expire: 3,
        minimum,
    }
}

/// Enumerate all assignments with at most `max_pop` populated slots (index-ordered recursion).
fn enumerate_small(
    max_pop: usize,
    f: &mut dyn FnMut(&[Option<Content>; 6], &[Option<Content>; 3]),
) {
    fn rec(
        slot: usize,
        left: usize,
        normal: &mut [Option<Content>; 6],
        wild: &mut [Option<Content>; 3],
        f: &mut dyn FnMut(&[Option<Content>; 6], &[Option<Content>; 3]),
    ) {
        if slot == 9 {
            if respects_d1(normal, wild) {
                f(normal, wild);
            }
            return;
        }
        rec(slot + 1, left, normal, wild, f);
        if left == 0 {
            return;
        }
        if slot < 6 {
            for c in NORMAL_CONTENTS {
                normal[slot] = Some(c);
                rec(slot + 1, left - 1, normal, wild, f);
            }
            normal[slot] = None;
        } else {
            for c in WILD_CONTENTS {
                wild[slot - 6] = Some(c);
                rec(slot + 1, left - 1, normal, wild, f);
            }
            wild[slot - 6] = None;
        }
    }
    rec(0, max_pop, &mut [None; 6], &mut [None; 3], f);
}

// ---------------------------------------------------------------------------
// (b) random larger zones

fn rand_label(rng: &mut Rng) -> Vec<u8> {
    match rng.below(12) {
        0 => b"www".to_vec(),
        1 => b"ns1".to_vec(),
        _ => vec![*rng.pick(b"abcd")],
    }
}

fn rand_rel(rng: &mut Rng, max_depth: usize) -> Vec<Vec<u8>> {
    let d = match rng.below(10) {
        0 => 0,
        1..=5 => rng.range(1, 2),
        _ => rng.range(1, max_depth),
    };
    (0..d).map(|_| rand_label(rng)).collect()
}

fn name_under(apex: &DomainName, rel: &[Vec<u8>]) -> Option<DomainName> {
    let mut ls: Vec<Label> = rel.iter().map(|l| label(l)).collect();
    ls.extend_from_slice(&apex.labels);
    DomainName::from_labels(ls)
}

fn rand_data(rng: &mut Rng, apex: &DomainName, tag: u8) -> RecordTypeWithData {
    use RecordTypeWithData as D;
    let some_name = |rng: &mut Rng| {
        if rng.bool() {
            name_under(apex, &rand_rel(rng, 3)).unwrap()
        } else {
            dn("elsewhere.example.")
        }
    };
    match rng.below(22) {
        0..=5 => a(Ipv4Addr::new(10, tag, rng.below(4) as u8, rng.below(3) as u8)),
        6 | 7 => D::AAAA {
            address: std::net::Ipv6Addr::new(0xfd00, tag.into(), 0, 0, 0, 0, 0, rng.below(3) as u16),
        },
        8 | 9 => txt(&[b't', tag, rng.below(3) as u8]),
        10 => mx(rng.below(3) as u16, &some_name(rng)),
        11 => D::PTR {
            ptrdname: some_name(rng),
        },
        12 => D::SRV {
            priority: 1,
            weight: 2,
            port: rng.below(3) as u16,
            target: some_name(rng),
        },
        13 => D::HINFO {
            octets: bytes::Bytes::from_static(b"cpu os"),
        },
        14 => D::MINFO {
            rmailbx: some_name(rng),
            emailbx: some_name(rng),
        },
        15 => D::MB {
            madname: some_name(rng),
        },
        16 => D::MG {
            mdmname: some_name(rng),
        },
        17 => D::MR {
            newname: some_name(rng),
        },
        18 => D::MD {
            madname: some_name(rng),
        },
        19 => D::MF {
            madname: some_name(rng),
        },
        20 => D::NULL {
            octets: bytes::Bytes::from_static(b"\x00\x01"),
        },
        _ => D::WKS {
            octets: bytes::Bytes::from_static(b"\x01\x02\x03\x04\x06"),
        },
    }
}

fn gen_random_zone(rng: &mut Rng) -> FlatZone {
    let apex = match rng.below(4) {
        0 => DomainName::root_domain(),
        1 => dn("t."),
        2 => dn("x.t."),
        _ => dn("deep.zone.example."),
    };
    let soa = if rng.chance(2, 3) {
        Some(mk_soa(&apex, *rng.pick(&[0u32, 60, 300, 86400])))
    } else {
        None
    };
    let n = rng.range(1, 40);
    let mut recs: Vec<FlatRec> = Vec::new();
    // cuts chosen first so that D1 can be honoured
    let mut cuts: Vec<DomainName> = Vec::new();
    for _ in 0..rng.below(3) {
        let rel = rand_rel(rng, 3);
        if rel.is_empty() {
            continue;
        }
        if let Some(c) = name_under(&apex, &rel) {
            cuts.push(c);
        }
    }
    let under_cut = |n: &DomainName, strictly: bool, cuts: &[DomainName]| {
        cuts.iter().any(|c| is_suffix(n, c) && (!strictly || !same_name(n, c)))
    };
    for c in &cuts {
        // a cut beneath another cut would be data beneath a delegation point
        if under_cut(c, true, &cuts) {
            continue;
        }
        for k in 0..rng.range(1, 3) {
            recs.push(FlatRec {
                owner: c.clone(),
                wildcard: false,
                data: ns(&dn(&format!("ns{k}.provider.example."))),
                ttl: *rng.pick(&[30u32, 300, 3600]),
            });
        }
    }
    let cuts: Vec<DomainName> = recs.iter().map(|r| r.owner.clone()).collect();
    if rng.chance(1, 3) {
        // NS at the apex: not a delegation
        for k in 0..rng.range(1, 2) {
            recs.push(FlatRec {
                owner: apex.clone(),
                wildcard: false,
                data: ns(&dn(&format!("ns{k}.apexns.example."))),
                ttl: 300,
            });
        }
    }
    let mut cname_owners: Vec<(DomainName, bool)> = Vec::new();
    for i in 0..n {
        let rel = rand_rel(rng, 6);
        let Some(owner) = name_under(&apex, &rel) else { continue };
        let wildcard = rng.chance(1, 5);
        // D1: nothing at-or-beneath a cut other than the NS set itself; no wildcard at a cut
        if under_cut(&owner, false, &cuts) {
            continue;
        }
        let tag = (i % 250) as u8;
        let data = if rng.chance(1, 8) && !cname_owners.contains(&(owner.clone(), wildcard)) {
            cname_owners.push((owner.clone(), wildcard));
            let target = if rng.bool() {
                name_under(&apex, &rand_rel(rng, 3)).unwrap()
            } else {
                dn("target.other.example.")
            };
            cname(&target)
        } else {
            rand_data(rng, &apex, tag)
        };
        recs.push(FlatRec {
            owner,
            wildcard,
            data,
            ttl: *rng.pick(&[0u32, 1, 30, 300, 86400, u32::MAX]),
        });
        // duplicates must not show twice
        if rng.chance(1, 10) {
            let d = recs.last().unwrap().clone();
            recs.push(d);
        }
    }
    FlatZone {
        apex,
        soa,
        recs,
        preclamped: false,
    }
}

fn random_qnames(rng: &mut Rng, fz: &FlatZone, n: usize) -> Vec<DomainName> {
    let mut out = vec![fz.apex.clone()];
    for _ in 0..n {
        let q = match rng.below(6) {
            0 => name_under(&fz.apex, &rand_rel(rng, 6)),
            _ if !fz.recs.is_empty() => {
                let r = rng.pick(&fz.recs);
                let base = r.owner.clone();
                match rng.below(5) {
                    0 => Some(base), // the owner itself (for a wildcard: the parent, an ENT or real node)
                    1 => {
                        // an ancestor (possibly an empty non-terminal)
                        let k = rng.range(fz.apex.labels.len(), base.labels.len());
                        Some(suffix_of(&base, k))
                    }
                    2 => {
                        // one label below (wildcard match, or a name beneath a cut, or a name error)
                        let mut ls = vec![label(&rand_label(rng))];
                        ls.extend_from_slice(&base.labels);
                        DomainName::from_labels(ls)
                    }
                    3 => {
                        // several labels below (multi-label wildcard match)
                        let mut ls: Vec<Label> = (0..rng.range(2, 3)).map(|_| label(&rand_label(rng))).collect();
                        ls.extend_from_slice(&base.labels);
                        DomainName::from_labels(ls)
                    }
                    _ => {
                        // a sibling
                        let mut ls = base.labels.clone();
                        if ls.len() > fz.apex.labels.len() {
                            ls[0] = label(&rand_label(rng));
                        }
                        DomainName::from_labels(ls)
                    }
                }
            }
            _ => name_under(&fz.apex, &rand_rel(rng, 4)),
        };
        if let Some(q) = q {
            if is_suffix(&q, &fz.apex) {
                out.push(q);
            }
        }
    }
    out
}

fn all_qtypes() -> Vec<QueryType> {
    let mut v = qtypes();
    for t in [
        RecordType::AAAA,
        RecordType::MX,
        RecordType::PTR,
        RecordType::SRV,
        RecordType::HINFO,
        RecordType::MINFO,
        RecordType::MB,
        RecordType::MG,
        RecordType::MR,
        RecordType::MD,
        RecordType::MF,
        RecordType::NULL,
        RecordType::WKS,
        RecordType::from(99),
    ] {
        v.push(qt(t));
    }
    v
}

fn c02(args: Args) {
    quiet_panics();
    let max_pop = args.tier.pick(3, 4);
    let mut run = Run::new(
        args.clone(),
        "exploration",
        "(a) exhaustive small scope: apexes {., t., x.t.} x {authoritative, not} x every assignment of at most N \
         populated slots (6 owner slots {apex,a,b,a.a,b.a,a.b} with contents {A,TXT,CNAME,NS,A+CNAME,A+TXT,NS+A}, 3 \
         wildcard slots {*,*.a,*.b} with contents {A,TXT,CNAME,A+CNAME,A+TXT}) respecting D1, x every qname of depth \
         <=3 over {a,b,c} plus six depth-4 probes x 9 qtypes (A TXT NS CNAME SOA ANY AXFR MAILA MAILB); N=3 quick, 4 \
         thorough. (b) random zones: <=40 records over all 18 supported types, depth <=6, cuts, apex NS, wildcards \
         under ENTs and beside siblings, duplicates; questions at owners, ancestors, siblings, 1..3 labels below. \
         Every lookup compared with a flat-map RFC 1034 4.3.2 / RFC 4592 model. non-trivial = a (zone, qname, \
         qtype) whose expected result is not NameError; distinct = distinct (zone, qname, qtype) hashes.",
    );
    run.assume("D1: zones with records beneath (or a wildcard at) a non-apex delegation point are outside the claim and never generated");
    run.assume("wildcard NS records and more than one CNAME at a node are not generated");
    run.exhaustive = true;
    run.set_extra("exhaustive_part", json!(format!("small-scope zones with <= {max_pop} populated slots: complete; random part is sampling")));
    let seed = args.seed;
    let n_random = args.size(60_000, 3_000_000);

    // collect the small-scope assignments once, then split across threads
    let mut assigns: Vec<([Option<Content>; 6], [Option<Content>; 3])> = Vec::new();
    enumerate_small(max_pop, &mut |n, w| assigns.push((*n, *w)));
    run.set_extra("small_scope_slot_assignments", json!(assigns.len()));
    let apexes = [DomainName::root_domain(), dn("t."), dn("x.t.")];
    let qts = qtypes();
    let allq = all_qtypes();

    run.parallel(THREADS, 8 << 20, |ti, sh| {
        sh.distinct_cap = 4_000_000;
        let mut rng = Rng::new(seed).fork(0x0200 + ti as u64);
        for (idx, (normal, wild)) in assigns.iter().enumerate() {
            if idx % THREADS != ti {
                continue;
            }
            for (ai, apex) in apexes.iter().enumerate() {
                let qnames = small_qnames(apex);
                for auth in [false, true] {
                    let mut recs = Vec::new();
                    // CNAME / NS targets: one in-zone name, so that results carry RDATA names
                    let target = below(apex, &["b", "a"]);
                    for (i, c) in normal.iter().enumerate() {
                        if let Some(c) = c {
                            contents_to_recs(&below(apex, NORMAL_SLOTS[i]), false, *c, i, &target, &mut recs);
                        }
                    }
                    for (i, c) in wild.iter().enumerate() {
                        if let Some(c) = c {
                            contents_to_recs(&below(apex, WILD_SLOTS[i]), true, *c, 6 + i, &target, &mut recs);
                        }
                    }
                    let fz = FlatZone {
                        apex: apex.clone(),
                        soa: if auth { Some(mk_soa(apex, 60)) } else { None },
                        recs,
                        preclamped: false,
                    };
                    let zone = build_zone(&fz);
                    sh.count("small_scope_zones", 1);
                    let zh = fnv_mix(fnv_mix(idx as u64, ai as u64), auth as u64);
                    let coords = json!({"class": "small-scope", "assignment": idx, "apex": ai, "authoritative": auth});
                    for (qi, q) in qnames.iter().enumerate() {
                        for (ti2, t) in qts.iter().enumerate() {
                            if check_lookup(&fz, &zone, q, *t, &coords, sh) {
                                sh.nontrivial(fnv_mix(zh, (qi * 16 + ti2) as u64));
                            }
                        }
                    }
                    if sh.want_sample() && idx % 997 == 3 && auth {
                        sh.sample(json!({"class": "small-scope", "zone": flat_json(&fz), "questions": qnames.len() * qts.len()}));
                    }
                }
            }
        }
        for k in 0..(n_random / THREADS as u64) {
            let fz = gen_random_zone(&mut rng);
            let zone = build_zone(&fz);
            sh.count("random_zones", 1);
            let qn = random_qnames(&mut rng, &fz, 24);
            let zh = fnv(format!("{:?}", flat_json(&fz)).as_bytes());
            let coords = json!({"class": "random", "thread": ti, "k": k});
            for q in &qn {
                for _ in 0..4 {
                    let t = *rng.pick(&allq);
                    if check_lookup(&fz, &zone, q, t, &coords, sh) {
                        sh.nontrivial(fnv_mix(fnv_mix(zh, fnv(show_name(q).as_bytes())), u64::from(u16::from(t))));
                    }
                }
            }
            if sh.want_sample() && k == 5 {
                sh.sample(json!({"class": "random", "zone": flat_json(&fz), "qnames": qn.iter().map(show_name).collect::<Vec<_>>()}));
            }
        }
    });
    run.finish(1000);
}

fn replay(path: &std::path::Path) {
    let text = std::fs::read_to_string(path).expect("read replay");
    let v: Value = serde_json::from_str(&text).expect("json");
    println!("replay of zone-lookup witnesses is by inspection: the case lists the zone records, qname and qtype:\n{}", serde_json::to_string_pretty(&v["case"]).unwrap());
}

//! Per-run bookkeeping, verdicts, evidence.
//!
//! Exit codes (three-valued verdict):
//!   0 = held on everything observed        (evidence says what was observed)
//!   1 = violation, `VIOLATION property=<id> replay=<path>` printed, witness on disk
//!   2 = inconclusive (too few non-trivial cases, watchdog, harness error)

use serde_json::{json, Map, Value};
use std::collections::{BTreeMap, HashSet};
use std::path::PathBuf;
use std::sync::Mutex;
use std::time::Instant;

pub const VERIF_DIR: &str = "/verif";

#[derive(Copy, Clone, Debug, Eq, PartialEq)]
pub enum Tier {
    Quick,
    Thorough,
}

impl Tier {
    pub fn name(self) -> &'static str {
        match self {
            Tier::Quick => "quick",
            Tier::Thorough => "thorough",
        }
    }
    /// Pick a workload size by tier.
    pub fn pick<T>(self, quick: T, thorough: T) -> T {
        match self {
            Tier::Quick => quick,
            Tier::Thorough => thorough,
        }
    }
}

/// Command line shared by all engines:
/// `<engine> --prop C03 --tier quick|thorough [--seed N] [--replay FILE] [--worker] [--trace] [--scale F]`
#[derive(Clone, Debug)]
pub struct Args {
    pub prop: String,
    pub tier: Tier,
    pub seed: u64,
    pub replay: Option<PathBuf>,
    pub worker: bool,
    pub trace: bool,
    /// multiplies workload sizes (for experiments; default 1.0)
    pub scale: f64,
    pub raw: Vec<String>,
}

impl Args {
    pub fn parse() -> Args {
        let raw: Vec<String> = std::env::args().skip(1).collect();
        let mut prop = String::new();
        let mut tier = match std::env::var("VERIF_TIER").ok().as_deref() {
            Some("thorough") => Tier::Thorough,
            _ => Tier::Quick,
        };
        let mut seed: u64 = std::env::var("VERIF_SEED")
            .ok()
            .and_then(|s| s.trim().parse::<i64>().ok())
            .map_or(1, |v| v as u64);
        let mut replay = None;
        let mut worker = false;
        let mut trace = false;
        let mut scale = std::env::var("VERIF_SCALE")
            .ok()
            .and_then(|s| s.parse::<f64>().ok())
            .unwrap_or(1.0);
        let mut i = 0;
        while i < raw.len() {
            match raw[i].as_str() {
                "--prop" => {
                    prop = raw[i + 1].clone();
                    i += 1;
                }
                "--tier" => {
                    tier = if raw[i + 1] == "thorough" {
                        Tier::Thorough
                    } else {
                        Tier::Quick
                    };
                    i += 1;
                }
                "--seed" => {
                    seed = raw[i + 1].parse::<i64>().expect("--seed") as u64;
                    i += 1;
                }
                "--replay" => {
                    replay = Some(PathBuf::from(&raw[i + 1]));
                    i += 1;
                }
                "--scale" => {
                    scale = raw[i + 1].parse().expect("--scale");
                    i += 1;
                }
                "--worker" => worker = true,
                "--trace" => trace = true,
                _ => {}
            }
            i += 1;
        }
        if prop.is_empty() {
            eprintln!("usage: <engine> --prop <ID> --tier quick|thorough [--seed N] [--replay FILE]");
            std::process::exit(2);
        }
        Args {
            prop,
            tier,
            seed,
            replay,
            worker,
            trace,
            scale,
            raw,
        }
    }

    /// Workload size: `quick`/`thorough` scaled by --scale.
    pub fn size(&self, quick: u64, thorough: u64) -> u64 {
        let base = self.tier.pick(quick, thorough) as f64;
        (base * self.scale).max(1.0) as u64
    }
}

#[derive(Clone, Debug)]
pub struct Violation {
    /// Specific, stable signature of the failure mode (key for known findings).
    pub signature: String,
    pub what: String,
    pub replay: Value,
}

/// Thread-local accumulator; merged into the `Run` when a worker thread is done.
#[derive(Default)]
pub struct Shard {
    pub evaluations: u64,
    pub distinct: HashSet<u64>,
    pub samples: Vec<Value>,
    pub counters: BTreeMap<String, u64>,
    pub violations: Vec<Violation>,
    pub max_samples: usize,
    pub distinct_cap: usize,
    pub distinct_overflow: u64,
    pub violation_occurrences: u64,
    /// set by Run::parallel for its worker threads: unwind out of the thread once saturated
    pub stop_when_saturated: bool,
}

impl Shard {
    pub fn new() -> Self {
        Shard {
            max_samples: 2,
            distinct_cap: 20_000_000,
            ..Default::default()
        }
    }
    #[inline]
    pub fn eval(&mut self) {
        if self.stop_when_saturated && self.violation_occurrences >= 300 {
            // the tree breaks the property all over the place: stop this worker thread here (caught in Run::parallel)
            std::panic::resume_unwind(Box::new(Saturated));
        }
        self.evaluations += 1;
    }
    /// Record a case that is non-trivial by the engine's stated rule; `hash` identifies the case.
    #[inline]
    pub fn nontrivial(&mut self, hash: u64) {
        if self.distinct.len() < self.distinct_cap {
            self.distinct.insert(hash);
        } else {
            self.distinct_overflow += 1;
        }
    }
    pub fn count(&mut self, key: &str, n: u64) {
        if let Some(c) = self.counters.get_mut(key) {
            *c += n;
        } else {
            self.counters.insert(key.to_string(), n);
        }
    }
    pub fn count_max(&mut self, key: &str, n: u64) {
        let c = self.counters.entry(key.to_string()).or_insert(0);
        if n > *c {
            *c = n;
        }
    }
    pub fn want_sample(&self) -> bool {
        self.samples.len() < self.max_samples
    }
    pub fn sample(&mut self, v: Value) {
        if self.samples.len() < self.max_samples {
            self.samples.push(v);
        }
    }
    /// True once so many violations were recorded that exploring further only costs time
    /// (a tree that breaks the property everywhere): engines may stop their loops early.
    pub fn saturated(&self) -> bool {
        self.violation_occurrences >= 300
    }

    pub fn violation(&mut self, signature: impl Into<String>, what: impl Into<String>, replay: Value) {
        let signature = signature.into();
        self.violation_occurrences += 1;
        // keep the first witness per signature and shard; count the rest
        self.count(&format!("violations[{signature}]"), 1);
        if self.violations.iter().any(|v| v.signature == signature) {
            return;
        }
        self.violations.push(Violation {
            signature,
            what: what.into(),
            replay,
        });
    }
}

pub struct Run {
    pub args: Args,
    pub prop: String,
    pub level: &'static str,
    pub rule: String,
    pub assumptions: Vec<String>,
    pub exhaustive: bool,
    start: Instant,
    merged: Mutex<Shard>,
    extra: Mutex<Map<String, Value>>,
}

#[derive(Clone, Debug)]
pub struct Finding {
    pub property: String,
    pub signature: String,
    pub status: String,
    pub what: String,
}

pub fn load_findings() -> Vec<Finding> {
    let path = format!("{VERIF_DIR}/known_findings.json");
    let Ok(text) = std::fs::read_to_string(&path) else {
        return Vec::new();
    };
    let Ok(v) = serde_json::from_str::<Value>(&text) else {
        eprintln!("warning: {path} is not valid JSON; ignoring");
        return Vec::new();
    };
    let mut out = Vec::new();
    if let Some(arr) = v.get("findings").and_then(Value::as_array) {
        for f in arr {
            out.push(Finding {
                property: f["property"].as_str().unwrap_or("").to_string(),
                signature: f["signature"].as_str().unwrap_or("").to_string(),
                status: f["status"].as_str().unwrap_or("").to_string(),
                what: f["what"].as_str().unwrap_or("").to_string(),
            });
        }
    }
    out
}

impl Run {
    pub fn new(args: Args, level: &'static str, rule: &str) -> Run {
        let mut merged = Shard::new();
        merged.max_samples = 5;
        Run {
            prop: args.prop.clone(),
            args,
            level,
            rule: rule.to_string(),
            assumptions: Vec::new(),
            exhaustive: false,
            start: Instant::now(),
            merged: Mutex::new(merged),
            extra: Mutex::new(Map::new()),
        }
    }

    pub fn tier(&self) -> Tier {
        self.args.tier
    }
    pub fn seed(&self) -> u64 {
        self.args.seed
    }
    pub fn elapsed_s(&self) -> f64 {
        self.start.elapsed().as_secs_f64()
    }
    pub fn assume(&mut self, s: &str) {
        self.assumptions.push(s.to_string());
    }
    pub fn set_extra(&self, key: &str, v: Value) {
        self.extra.lock().unwrap().insert(key.to_string(), v);
    }

    pub fn merge(&self, shard: Shard) {
        let mut m = self.merged.lock().unwrap();
        m.evaluations += shard.evaluations;
        m.distinct_overflow += shard.distinct_overflow;
        let cap = m.distinct_cap * 4;
        for h in shard.distinct {
            if m.distinct.len() < cap {
                m.distinct.insert(h);
            } else {
                m.distinct_overflow += 1;
            }
        }
        for s in shard.samples {
            if m.samples.len() < m.max_samples {
                m.samples.push(s);
            }
        }
        for (k, v) in shard.counters {
            if k.starts_with("max:") {
                let c = m.counters.entry(k).or_insert(0);
                if v > *c {
                    *c = v;
                }
            } else {
                *m.counters.entry(k).or_insert(0) += v;
            }
        }
        for v in shard.violations {
            if !m.violations.iter().any(|x| x.signature == v.signature) {
                m.violations.push(v);
            }
        }
    }

    /// Run `f(thread_index, &mut Shard)` on `n` threads (each with `stack` bytes of stack) and merge.
    pub fn parallel<F>(&self, n: usize, stack: usize, f: F)
    where
        F: Fn(usize, &mut Shard) + Sync,
    {
        std::thread::scope(|scope| {
            let mut handles = Vec::new();
            for i in 0..n {
                let f = &f;
                let h = std::thread::Builder::new()
                    .stack_size(stack)
                    .name(format!("w{i}"))
                    .spawn_scoped(scope, move || {
                        let mut shard = Shard::new();
                        shard.stop_when_saturated = true;
                        let r = std::panic::catch_unwind(std::panic::AssertUnwindSafe(|| f(i, &mut shard)));
                        if let Err(e) = r {
                            if !e.is::<Saturated>() {
                                std::panic::resume_unwind(e);
                            }
                        }
                        shard
                    })
                    .expect("spawn");
                handles.push(h);
            }
            for h in handles {
                match h.join() {
                    Ok(shard) => self.merge(shard),
                    Err(e) => {
                        let msg = panic_message(&e);
                        println!("INCONCLUSIVE property={} harness thread panicked: {msg}", self.prop);
                        std::process::exit(2);
                    }
                }
            }
        });
    }

    /// Write evidence, print verdict lines, exit.  `floor` = minimum number of distinct
    /// non-trivial cases below which the run refuses to say "held".
    pub fn finish(self, floor: u64) -> ! {
        let code = self.finish_code(floor);
        std::process::exit(code)
    }

    pub fn finish_code(self, floor: u64) -> i32 {
        let findings = load_findings();
        let m = self.merged.into_inner().unwrap();
        let mut unlisted = 0;
        let mut known = 0;
        let mut out_lines = Vec::new();
        for v in &m.violations {
            let listed = findings
                .iter()
                .find(|f| f.property == self.prop && f.signature == v.signature && f.status == "known");
            if let Some(f) = listed {
                known += 1;
                out_lines.push(format!(
                    "KNOWN-FINDING: property={} {} [{}]",
                    self.prop, f.what, v.signature
                ));
            } else {
                unlisted += 1;
                let dir = format!("{VERIF_DIR}/replays/{}", self.prop);
                let _ = std::fs::create_dir_all(&dir);
                let fname = format!(
                    "{dir}/{}-seed{}.json",
                    sanitize(&v.signature),
                    self.args.seed as i64
                );
                let body = json!({
                    "property": self.prop,
                    "signature": v.signature,
                    "what": v.what,
                    "seed": self.args.seed as i64,
                    "tier": self.args.tier.name(),
                    "case": v.replay,
                });
                let _ = std::fs::write(&fname, serde_json::to_string_pretty(&body).unwrap());
                out_lines.push(format!("VIOLATION property={} replay={fname}", self.prop));
                out_lines.push(format!("  signature: {}", v.signature));
                out_lines.push(format!("  what: {}", truncate(&v.what, 600)));
            }
        }

        let distinct = m.distinct.len() as u64;
        let wall = self.start.elapsed().as_secs_f64();
        let mut coverage = Map::new();
        coverage.insert("evaluations".into(), json!(m.evaluations));
        coverage.insert("distinct_nontrivial".into(), json!(distinct));
        let mut rule = self.rule.clone();
        if m.distinct_overflow > 0 {
            rule.push_str(&format!(
                " [distinct tracking capped: {} further non-trivial cases were not hashed, so distinct_nontrivial is a lower bound]",
                m.distinct_overflow
            ));
        }
        coverage.insert("rule".into(), json!(rule));
        coverage.insert("samples".into(), Value::Array(m.samples.clone()));
        coverage.insert("exhaustive".into(), json!(self.exhaustive));
        let mut counters = Map::new();
        for (k, v) in &m.counters {
            counters.insert(k.clone(), json!(v));
        }
        coverage.insert("counters".into(), Value::Object(counters));
        coverage.insert("known_findings_hit".into(), json!(known));
        for (k, v) in self.extra.into_inner().unwrap() {
            coverage.insert(k, v);
        }
        let evidence = json!({
            "property_id": self.prop,
            "tier": self.args.tier.name(),
            "seed": self.args.seed as i64,
            "level": self.level,
            "coverage": Value::Object(coverage),
            "assumptions": self.assumptions,
            "wall_s": (wall * 1000.0).round() / 1000.0,
            "violations": unlisted,
        });
        let _ = std::fs::create_dir_all(format!("{VERIF_DIR}/evidence"));
        let path = format!("{VERIF_DIR}/evidence/{}.json", self.prop);
        if let Err(e) = std::fs::write(&path, serde_json::to_string_pretty(&evidence).unwrap()) {
            println!("INCONCLUSIVE property={} cannot write evidence: {e}", self.prop);
            return 2;
        }

        for l in &out_lines {
            println!("{l}");
        }
        println!(
            "property={} tier={} seed={} evaluations={} distinct_nontrivial={} violations={} known={} wall_s={:.1}",
            self.prop,
            self.args.tier.name(),
            self.args.seed as i64,
            m.evaluations,
            distinct,
            unlisted,
            known,
            wall
        );
        if unlisted > 0 {
            1
        } else if distinct < floor {
            println!(
                "INCONCLUSIVE property={} only {distinct} distinct non-trivial cases observed (floor {floor})",
                self.prop
            );
            2
        } else {
            println!("HELD property={} on everything observed", self.prop);
            0
        }
    }
}

pub fn panic_message(e: &Box<dyn std::any::Any + Send>) -> String {
    if let Some(s) = e.downcast_ref::<&str>() {
        (*s).to_string()
    } else if let Some(s) = e.downcast_ref::<String>() {
        s.clone()
    } else {
        "<non-string panic>".to_string()
    }
}

pub fn sanitize(s: &str) -> String {
    let mut out: String = s
        .chars()
        .map(|c| if c.is_ascii_alphanumeric() || c == '-' || c == '_' { c } else { '_' })
        .collect();
    out.truncate(100);
    out
}

pub fn truncate(s: &str, n: usize) -> String {
    if s.len() <= n {
        s.to_string()
    } else {
        let mut end = n;
        while !s.is_char_boundary(end) {
            end -= 1;
        }
        format!("{}…", &s[..end])
    }
}

pub fn hex(bytes: &[u8]) -> String {
    let mut s = String::with_capacity(bytes.len() * 2);
    for b in bytes {
        s.push_str(&format!("{b:02x}"));
    }
    s
}

pub fn unhex(s: &str) -> Vec<u8> {
    let s = s.as_bytes();
    let mut out = Vec::with_capacity(s.len() / 2);
    let mut i = 0;
    while i + 1 < s.len() {
        let h = (s[i] as char).to_digit(16).unwrap_or(0) as u8;
        let l = (s[i + 1] as char).to_digit(16).unwrap_or(0) as u8;
        out.push(h << 4 | l);
        i += 2;
    }
    out
}

/// Run `f` catching panics; the default panic hook's message is suppressed for
/// the duration when `quiet`.
pub fn catch<T>(f: impl FnOnce() -> T + std::panic::UnwindSafe) -> Result<T, String> {
    match std::panic::catch_unwind(f) {
        Ok(v) => Ok(v),
        Err(e) => {
            if e.is::<Saturated>() {
                std::panic::resume_unwind(e);
            }
            Err(panic_message(&e))
        }
    }
}

/// Unwind payload used to stop a worker thread once it has recorded hundreds of violations.
pub struct Saturated;

/// Install a panic hook that stays silent (panics are reported by the monitors, with the case).
pub fn quiet_panics() {
    if std::env::var("VERIF_LOUD_PANICS").is_ok() {
        return;
    }
    std::panic::set_hook(Box::new(|_| {}));
}

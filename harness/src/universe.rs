//! A generated DNS universe: a consistent hierarchy of zones delegated from the
//! root, the fake authoritative servers that serve it (RFC 1034 §4.3.2), and the
//! globally computed expected answer for any question.  Harness code only — the
//! resolver under test sees it through the transport hook.

use dns_types::protocol::types::*;
use dns_types::zones::types::Zone;
use std::collections::{BTreeMap, BTreeSet};
use std::net::{IpAddr, Ipv4Addr, Ipv6Addr, SocketAddr};

use crate::names::*;
use crate::refmodel::zone::{is_suffix, same_name, FlatSoa};
use crate::rng::Rng;

#[derive(Clone, Debug)]
pub struct UHost {
    pub name: DomainName,
    pub v4: Option<Ipv4Addr>,
    pub v6: Option<Ipv6Addr>,
}

#[derive(Clone, Debug)]
pub struct URec {
    pub owner: DomainName,
    pub data: RecordTypeWithData,
    pub ttl: u32,
}

#[derive(Clone, Debug)]
pub struct UZone {
    pub apex: DomainName,
    pub soa: FlatSoa,
    pub recs: Vec<URec>,
    /// indices into `hosts`
    pub ns_hosts: Vec<usize>,
    /// per NS host: does the parent send glue for it in referrals
    pub glue: Vec<bool>,
    pub parent: Option<usize>,
    pub children: Vec<usize>,
    pub depth: usize,
}

#[derive(Clone, Debug, Default)]
pub struct Universe {
    pub zones: Vec<UZone>,
    pub hosts: Vec<UHost>,
}

#[derive(Clone, Debug, PartialEq, Eq)]
pub struct Expected {
    pub chain: Vec<ResourceRecord>,
    pub finals: Vec<ResourceRecord>,
    /// SOA of the zone that says "no such name / no such data" (when `finals` is empty)
    pub soa: Option<ResourceRecord>,
    /// the chain was cut short by a loop or by the length limit
    pub truncated: bool,
}

#[derive(Clone, Debug)]
pub struct ServerReply {
    pub rcode: Rcode,
    pub aa: bool,
    pub answers: Vec<ResourceRecord>,
    pub authority: Vec<ResourceRecord>,
    pub additional: Vec<ResourceRecord>,
    /// depth (labels of the apex) of the zone that produced the answer; None = REFUSED
    pub zone_depth: Option<usize>,
    pub kind: &'static str,
}

pub enum InZone {
    Referral(usize),
    Cname(ResourceRecord),
    Answer(Vec<ResourceRecord>),
    NoData,
    NxDomain,
}

pub struct GenCfg {
    pub max_depth: usize,
    pub max_zones: usize,
    /// which address families hosts get: (v4, v6) probabilities out of 4 for "has v4 only", "has v6 only"; rest dual
    pub v4_only: usize,
    pub v6_only: usize,
    pub allow_glueless: bool,
    pub cname_chains: usize,
}

impl Default for GenCfg {
    fn default() -> Self {
        GenCfg {
            max_depth: 5,
            max_zones: 10,
            v4_only: 0,
            v6_only: 0,
            allow_glueless: true,
            cname_chains: 3,
        }
    }
}

fn child_name(parent: &DomainName, labels: &[&str]) -> DomainName {
    let mut ls: Vec<Label> = labels.iter().map(|l| label(l.as_bytes())).collect();
    ls.extend_from_slice(&parent.labels);
    DomainName::from_labels(ls).expect("generated name fits")
}

impl Universe {
    pub fn rr(&self, r: &URec) -> ResourceRecord {
        rr(&r.owner, r.data.clone(), r.ttl)
    }

    pub fn soa_rr(&self, z: usize) -> ResourceRecord {
        self.zones[z].soa.rr(&self.zones[z].apex)
    }

    /// Deepest zone whose apex is a suffix of `name` (the root zone encloses everything).
    pub fn zone_of(&self, name: &DomainName) -> usize {
        let mut best = 0;
        let mut best_len = 0;
        for (i, z) in self.zones.iter().enumerate() {
            if is_suffix(name, &z.apex) && z.apex.labels.len() > best_len {
                best = i;
                best_len = z.apex.labels.len();
            }
        }
        best
    }

    pub fn host_addrs(&self, h: usize) -> Vec<IpAddr> {
        let mut v = Vec::new();
        if let Some(a) = self.hosts[h].v4 {
            v.push(IpAddr::V4(a));
        }
        if let Some(a) = self.hosts[h].v6 {
            v.push(IpAddr::V6(a));
        }
        v
    }

    pub fn host_by_addr(&self, ip: IpAddr) -> Option<usize> {
        self.hosts.iter().position(|h| match ip {
            IpAddr::V4(a) => h.v4 == Some(a),
            IpAddr::V6(a) => h.v6 == Some(a),
        })
    }

    pub fn host_by_name(&self, name: &DomainName) -> Option<usize> {
        self.hosts.iter().position(|h| same_name(&h.name, name))
    }

    /// Zones served by the server at this address.
    pub fn zones_at(&self, ip: IpAddr) -> Vec<usize> {
        match self.host_by_addr(ip) {
            Some(h) => (0..self.zones.len()).filter(|z| self.zones[*z].ns_hosts.contains(&h)).collect(),
            None => Vec::new(),
        }
    }

    pub fn ns_rrs(&self, z: usize) -> Vec<ResourceRecord> {
        self.zones[z].ns_hosts.iter().map(|h| rr(&self.zones[z].apex, ns(&self.hosts[*h].name), 3600)).collect()
    }

    fn addr_rrs(&self, h: usize) -> Vec<ResourceRecord> {
        let mut v = Vec::new();
        if let Some(x) = self.hosts[h].v4 {
            v.push(rr(&self.hosts[h].name, a(x), 3600));
        }
        if let Some(x) = self.hosts[h].v6 {
            v.push(rr(&self.hosts[h].name, aaaa(x), 3600));
        }
        v
    }

    /// Lookup inside one zone (the zone is assumed to enclose `name`).
    pub fn in_zone(&self, z: usize, name: &DomainName, qtype: QueryType) -> InZone {
        let zone = &self.zones[z];
        // at or below a cut?
        for c in &zone.children {
            if is_suffix(name, &self.zones[*c].apex) {
                return InZone::Referral(*c);
            }
        }
        let mut at: Vec<ResourceRecord> = zone.recs.iter().filter(|r| same_name(&r.owner, name)).map(|r| self.rr(r)).collect();
        if same_name(name, &zone.apex) {
            at.push(self.soa_rr(z));
            at.extend(self.ns_rrs(z));
        }
        let wants_cname = matches!(qtype, QueryType::Wildcard | QueryType::Record(RecordType::CNAME));
        if !wants_cname {
            if let Some(c) = at.iter().find(|r| matches!(r.rtype_with_data, RecordTypeWithData::CNAME { .. })) {
                return InZone::Cname(c.clone());
            }
        }
        let matching: Vec<ResourceRecord> = at.iter().filter(|r| r.rtype_with_data.matches(qtype)).cloned().collect();
        if !matching.is_empty() {
            return InZone::Answer(matching);
        }
        if !at.is_empty() {
            return InZone::NoData;
        }
        // empty non-terminal: something in the zone (a record owner or a cut) lies below the name
        let below = zone.recs.iter().any(|r| is_suffix(&r.owner, name)) || zone.children.iter().any(|c| is_suffix(&self.zones[*c].apex, name));
        if below {
            InZone::NoData
        } else {
            InZone::NxDomain
        }
    }

    /// What the authoritative servers hold for the question, computed globally.
    pub fn expected(&self, qname: &DomainName, qtype: QueryType) -> Expected {
        let mut chain = Vec::new();
        let mut name = qname.clone();
        let mut seen: BTreeSet<DomainName> = BTreeSet::new();
        loop {
            if !seen.insert(name.clone()) || chain.len() > 40 {
                return Expected {
                    chain,
                    finals: Vec::new(),
                    soa: None,
                    truncated: true,
                };
            }
            let mut z = self.zone_of(&name);
            // the deepest zone by apex is the owner (cuts are exactly child apexes)
            loop {
                match self.in_zone(z, &name, qtype) {
                    InZone::Referral(c) => z = c,
                    InZone::Cname(rr) => {
                        if let RecordTypeWithData::CNAME { cname } = &rr.rtype_with_data {
                            name = cname.clone();
                        }
                        chain.push(rr);
                        break;
                    }
                    InZone::Answer(rrs) => {
                        return Expected {
                            chain,
                            finals: rrs,
                            soa: None,
                            truncated: false,
                        }
                    }
                    InZone::NoData | InZone::NxDomain => {
                        return Expected {
                            chain,
                            finals: Vec::new(),
                            soa: Some(self.soa_rr(z)),
                            truncated: false,
                        }
                    }
                }
            }
        }
    }

    /// The reply of the authoritative server at `ip` to `q`.
    pub fn serve(&self, ip: IpAddr, q: &Question) -> ServerReply {
        let served = self.zones_at(ip);
        let best = served
            .iter()
            .filter(|z| is_suffix(&q.name, &self.zones[**z].apex))
            .max_by_key(|z| self.zones[**z].apex.labels.len())
            .copied();
        let Some(z) = best else {
            return ServerReply {
                rcode: Rcode::Refused,
                aa: false,
                answers: vec![],
                authority: vec![],
                additional: vec![],
                zone_depth: None,
                kind: "refused",
            };
        };
        let depth = Some(self.zones[z].apex.labels.len());
        let mut answers = Vec::new();
        let mut name = q.name.clone();
        let mut hops = 0;
        loop {
            match self.in_zone(z, &name, q.qtype) {
                InZone::Referral(c) => {
                    // referral (possibly after in-zone CNAMEs): NS of the child + glue
                    let mut additional = Vec::new();
                    for (i, h) in self.zones[c].ns_hosts.iter().enumerate() {
                        if self.zones[c].glue[i] {
                            additional.extend(self.addr_rrs(*h));
                        }
                    }
                    if !answers.is_empty() {
                        // CNAME chain that leaves the zone into a child: answer with the chain only
                        return ServerReply {
                            rcode: Rcode::NoError,
                            aa: true,
                            answers,
                            authority: vec![],
                            additional: vec![],
                            zone_depth: depth,
                            kind: "cname-out",
                        };
                    }
                    return ServerReply {
                        rcode: Rcode::NoError,
                        aa: false,
                        answers: vec![],
                        authority: self.ns_rrs(c),
                        additional,
                        zone_depth: depth,
                        kind: "referral",
                    };
                }
                InZone::Cname(rr) => {
                    let target = match &rr.rtype_with_data {
                        RecordTypeWithData::CNAME { cname } => cname.clone(),
                        _ => unreachable!(),
                    };
                    answers.push(rr);
                    hops += 1;
                    // continue only while the target stays inside this very zone
                    if hops > 20 || self.zone_of(&target) != z || !is_suffix(&target, &self.zones[z].apex) {
                        return ServerReply {
                            rcode: Rcode::NoError,
                            aa: true,
                            answers,
                            authority: vec![],
                            additional: vec![],
                            zone_depth: depth,
                            kind: "cname-out",
                        };
                    }
                    name = target;
                }
                InZone::Answer(rrs) => {
                    answers.extend(rrs);
                    return ServerReply {
                        rcode: Rcode::NoError,
                        aa: true,
                        answers,
                        authority: vec![],
                        additional: vec![],
                        zone_depth: depth,
                        kind: "answer",
                    };
                }
                InZone::NoData => {
                    let soa = if answers.is_empty() { vec![self.soa_rr(z)] } else { vec![] };
                    let kind = if answers.is_empty() { "nodata" } else { "cname-then-nodata" };
                    return ServerReply {
                        rcode: Rcode::NoError,
                        aa: true,
                        answers,
                        authority: soa,
                        additional: vec![],
                        zone_depth: depth,
                        kind,
                    };
                }
                InZone::NxDomain => {
                    let first = answers.is_empty();
                    return ServerReply {
                        rcode: if first { Rcode::NameError } else { Rcode::NoError },
                        aa: true,
                        answers,
                        authority: if first { vec![self.soa_rr(z)] } else { vec![] },
                        additional: vec![],
                        zone_depth: depth,
                        kind: if first { "nxdomain" } else { "cname-then-nxdomain" },
                    };
                }
            }
        }
    }

    /// Local configuration for a recursive resolver: the root hints as a non-authoritative root zone.
    pub fn hints_zone(&self) -> Zone {
        let mut z = Zone::new(DomainName::root_domain(), None);
        for h in &self.zones[0].ns_hosts {
            z.insert(&DomainName::root_domain(), ns(&self.hosts[*h].name), 3600);
            for r in self.addr_rrs(*h) {
                z.insert(&r.name, r.rtype_with_data, 3600);
            }
        }
        z
    }

    pub fn all_names(&self) -> Vec<DomainName> {
        let mut s: BTreeSet<DomainName> = BTreeSet::new();
        for z in &self.zones {
            s.insert(z.apex.clone());
            for r in &z.recs {
                s.insert(r.owner.clone());
            }
        }
        for h in &self.hosts {
            s.insert(h.name.clone());
        }
        s.into_iter().collect()
    }

    pub fn describe(&self) -> serde_json::Value {
        serde_json::json!({
            "zones": self.zones.iter().map(|z| serde_json::json!({
                "apex": show_name(&z.apex),
                "ns": z.ns_hosts.iter().zip(z.glue.iter()).map(|(h, g)| format!("{}{}", show_name(&self.hosts[*h].name), if *g { " (glue)" } else { "" })).collect::<Vec<_>>(),
                "records": z.recs.iter().map(|r| show_rr(&self.rr(r))).collect::<Vec<_>>(),
            })).collect::<Vec<_>>(),
            "hosts": self.hosts.iter().map(|h| format!("{} {:?} {:?}", show_name(&h.name), h.v4, h.v6)).collect::<Vec<_>>(),
        })
    }
}

pub fn sockaddr(ip: IpAddr, port: u16) -> SocketAddr {
    SocketAddr::new(ip, port)
}

/// Generate a consistent universe.
pub fn generate(rng: &mut Rng, cfg: &GenCfg) -> Universe {
    let mut u = Universe::default();
    let mut host_counter = 0usize;
    let mut new_host = |u: &mut Universe, name: DomainName, rng: &mut Rng| -> usize {
        host_counter += 1;
        let i = host_counter;
        let pick = rng.below(4);
        let (has4, has6) = if pick < cfg.v4_only {
            (true, false)
        } else if pick < cfg.v4_only + cfg.v6_only {
            (false, true)
        } else {
            (true, true)
        };
        u.hosts.push(UHost {
            name,
            v4: if has4 { Some(Ipv4Addr::new(192, 0, (i / 200) as u8 + 2, (i % 200) as u8 + 1)) } else { None },
            v6: if has6 {
                // one host in four has an IPv6 address of a form that embeds an IPv4 address (mapped, compatible,
                // 6to4, NAT64): still an IPv6 address, and to be contacted as one (S-C18-2)
                let (hi, lo) = (0xc633u16, ((100 + i / 200) as u16) << 8 | ((i % 200) as u16 + 1)); // 198.51.100+.x: nobody's IPv4 address
                Some(match rng.below(16) {
                    0 => Ipv6Addr::new(0, 0, 0, 0, 0, 0xffff, hi, lo),
                    1 => Ipv6Addr::new(0, 0, 0, 0, 0, 0, hi, lo),
                    2 => Ipv6Addr::new(0x2002, hi, lo, 0, 0, 0, 0, i as u16),
                    3 => Ipv6Addr::new(0x64, 0xff9b, 0, 0, 0, 0, hi, lo),
                    _ => Ipv6Addr::new(0x2001, 0xdb8, 0x53, 0, 0, 0, 0, i as u16),
                })
            } else {
                None
            },
        });
        u.hosts.len() - 1
    };
    let mk_soa = |apex: &DomainName, serial: u32| FlatSoa {
        mname: child_name(apex, &["mname"]),
        rname: dn("hostmaster.invalid."),
        serial,
        refresh: 7200,
        retry: 3600,
        expire: 86400,
        minimum: 300,
    };
    // root zone with 1..3 servers named under a TLD that is not otherwise used; hints carry their addresses
    let root = DomainName::root_domain();
    let n_root = rng.range(1, 3);
    let mut root_hosts = Vec::new();
    for k in 0..n_root {
        let h = new_host(&mut u, dn(&format!("r{k}.rootns.")), rng);
        root_hosts.push(h);
    }
    u.zones.push(UZone {
        apex: root.clone(),
        soa: mk_soa(&root, 1),
        recs: Vec::new(),
        glue: vec![true; root_hosts.len()],
        ns_hosts: root_hosts,
        parent: None,
        children: Vec::new(),
        depth: 0,
    });
    // root server address records live in the root zone (there is no `rootns.` zone)
    for h in u.zones[0].ns_hosts.clone() {
        for r in u.addr_rrs(h) {
            u.zones[0].recs.push(URec {
                owner: r.name.clone(),
                data: r.rtype_with_data.clone(),
                ttl: r.ttl,
            });
        }
    }
    // further zones, breadth first
    let n_zones = rng.range(2, cfg.max_zones.max(2));
    let mut zi = 0;
    while u.zones.len() < n_zones && zi < u.zones.len() {
        let parent = zi;
        zi += 1;
        if u.zones[parent].depth >= cfg.max_depth {
            continue;
        }
        let n_children = if parent == 0 { rng.range(1, 3) } else { rng.below(3) };
        for c in 0..n_children {
            if u.zones.len() >= n_zones {
                break;
            }
            let papex = u.zones[parent].apex.clone();
            let idx = u.zones.len();
            // apex one label below the parent, or two (with an empty non-terminal in between)
            let apex = if rng.chance(1, 5) {
                child_name(&papex, &[&format!("z{idx}"), &format!("e{c}")])
            } else {
                child_name(&papex, &[&format!("z{idx}")])
            };
            // name servers: in-bailiwick (glue mandatory) or hosted under an earlier zone
            let n_ns = rng.range(1, 3);
            let mut ns_hosts = Vec::new();
            let mut glue = Vec::new();
            let mut new_recs: Vec<(usize, URec)> = Vec::new();
            for k in 0..n_ns {
                let in_bailiwick = !cfg.allow_glueless || k == 0 && rng.chance(2, 3) || rng.chance(1, 2);
                if in_bailiwick {
                    let h = new_host(&mut u, child_name(&apex, &[&format!("ns{k}")]), rng);
                    ns_hosts.push(h);
                    glue.push(true);
                    // the address records are data of the new zone itself (pushed below)
                    for r in u.addr_rrs(h) {
                        new_recs.push((
                            idx,
                            URec {
                                owner: r.name.clone(),
                                data: r.rtype_with_data.clone(),
                                ttl: r.ttl,
                            },
                        ));
                    }
                } else if rng.chance(1, 3) && u.hosts.len() > u.zones[0].ns_hosts.len() {
                    // shared hosting: a name server that already serves another zone (there it may be in-bailiwick
                    // with glue) also serves this one; here it is out-of-bailiwick, with or without glue
                    let h = rng.range(u.zones[0].ns_hosts.len(), u.hosts.len() - 1);
                    if ns_hosts.contains(&h) {
                        continue;
                    }
                    ns_hosts.push(h);
                    glue.push(rng.chance(1, 3));
                } else {
                    // hosted under an existing zone that is not the new zone or below it: any existing one qualifies
                    let host_zone = rng.below(idx);
                    let hz_apex = u.zones[host_zone].apex.clone();
                    let hname = child_name(&hz_apex, &[&format!("ns{k}-for-z{idx}")]);
                    // the name must really belong to host_zone (not under one of its cuts): labels are unique, so it does
                    let h = new_host(&mut u, hname, rng);
                    ns_hosts.push(h);
                    glue.push(rng.chance(1, 3));
                    for r in u.addr_rrs(h) {
                        new_recs.push((
                            host_zone,
                            URec {
                                owner: r.name.clone(),
                                data: r.rtype_with_data.clone(),
                                ttl: r.ttl,
                            },
                        ));
                    }
                }
            }
            let depth = u.zones[parent].depth + 1;
            u.zones.push(UZone {
                apex: apex.clone(),
                soa: mk_soa(&apex, idx as u32 + 1),
                recs: Vec::new(),
                ns_hosts,
                glue,
                parent: Some(parent),
                children: Vec::new(),
                depth,
            });
            u.zones[parent].children.push(idx);
            for (z, r) in new_recs {
                u.zones[z].recs.push(r);
            }
        }
    }
    // data records (M-TAG: zone i -> 10.i.x.y / "z<i>:...")
    for i in 0..u.zones.len() {
        let apex = u.zones[i].apex.clone();
        let n = rng.range(1, 6);
        for k in 0..n {
            let owner = match rng.below(6) {
                0 => apex.clone(),
                1 => child_name(&apex, &[&format!("d{k}"), "deep"]),
                _ => child_name(&apex, &[&format!("d{k}")]),
            };
            let ttl = *rng.pick(&[60u32, 300, 3600]);
            for _ in 0..rng.range(1, 2) {
                let data = match rng.below(6) {
                    0 | 1 => a(Ipv4Addr::new(10, i as u8, k as u8, rng.below(3) as u8)),
                    2 => aaaa(Ipv6Addr::new(0xfd00, i as u16, k as u16, 0, 0, 0, 0, rng.below(3) as u16)),
                    3 => txt(format!("z{i}:d{k}:{}", rng.below(3)).as_bytes()),
                    4 => mx(10, &child_name(&apex, &["mail"])),
                    _ => a(Ipv4Addr::new(10, i as u8, k as u8, 9)),
                };
                if !u.zones[i].recs.iter().any(|r| same_name(&r.owner, &owner) && r.data == data) {
                    u.zones[i].recs.push(URec {
                        owner: owner.clone(),
                        data,
                        ttl,
                    });
                }
            }
        }
    }
    // alias chains within and across zones
    for ch in 0..cfg.cname_chains {
        let len = rng.range(1, 8);
        // the end of the chain: an existing data name, or a missing one
        let zend = rng.below(u.zones.len());
        let mut target = if rng.chance(3, 4) && !u.zones[zend].recs.is_empty() {
            rng.pick(&u.zones[zend].recs).owner.clone()
        } else {
            child_name(&u.zones[zend].apex, &[&format!("missing{ch}")])
        };
        for l in (0..len).rev() {
            let z = if rng.chance(1, 2) { u.zone_of(&target) } else { rng.below(u.zones.len()) };
            let owner = child_name(&u.zones[z].apex, &[&format!("al{ch}-{l}")]);
            u.zones[z].recs.push(URec {
                owner: owner.clone(),
                data: cname(&target),
                ttl: *rng.pick(&[60u32, 300]),
            });
            target = owner;
        }
    }
    u
}

/// Add a *ladder* to a universe: `k` zones `lad<i>.` below the root, each served by a single name server that is named
/// in a zone of its own (`ladhost<i>.`, delegated from the root with glue) and for which the root sends **no** glue;
/// `a.lad<i>. CNAME a.lad<i+1>.` and an A record at the end.  Resolving `a.lad0.` takes one name-server address lookup
/// through upstream per link: many sibling sub-resolutions inside one request, each of which must leave the resolver's
/// bookkeeping as it found it.  Returns the question name.  IPv4 only (203.0.113.100+).
pub fn add_ladder(u: &mut Universe, k: usize) -> DomainName {
    let soa = |apex: &DomainName, serial: u32| FlatSoa {
        mname: child_name(apex, &["mname"]),
        rname: dn("hostmaster.invalid."),
        serial,
        refresh: 7200,
        retry: 3600,
        expire: 86400,
        minimum: 300,
    };
    for i in 0..k {
        let host_apex = dn(&format!("ladhost{i}."));
        let host_name = child_name(&host_apex, &["ns"]);
        let h = u.hosts.len();
        u.hosts.push(UHost {
            name: host_name.clone(),
            v4: Some(Ipv4Addr::new(203, 0, 113, 100 + i as u8)),
            v6: None,
        });
        // the zone the server's name lives in: in-bailiwick, glue from the root
        let hz = u.zones.len();
        u.zones.push(UZone {
            apex: host_apex.clone(),
            soa: soa(&host_apex, 7000 + i as u32),
            recs: u.addr_rrs(h).into_iter().map(|r| URec { owner: r.name.clone(), data: r.rtype_with_data.clone(), ttl: r.ttl }).collect(),
            ns_hosts: vec![h],
            glue: vec![true],
            parent: Some(0),
            children: Vec::new(),
            depth: 1,
        });
        u.zones[0].children.push(hz);
        // the ladder zone itself: same server, no glue
        let apex = dn(&format!("lad{i}."));
        let owner = child_name(&apex, &["a"]);
        let data = if i + 1 < k { cname(&dn(&format!("a.lad{}.", i + 1))) } else { a(Ipv4Addr::new(10, 222, 0, k as u8)) };
        let lz = u.zones.len();
        u.zones.push(UZone {
            apex: apex.clone(),
            soa: soa(&apex, 8000 + i as u32),
            recs: vec![URec { owner, data, ttl: 300 }],
            ns_hosts: vec![h],
            glue: vec![false],
            parent: Some(0),
            children: Vec::new(),
            depth: 1,
        });
        u.zones[0].children.push(lz);
    }
    dn("a.lad0.")
}

/// Add two sibling zones that host each other's only name server: `muta.` is served by `ns.mutb.` and `mutb.` by
/// `ns.muta.`, the root sending glue for both.  Neither server's address can be learnt by asking the zone its name lives
/// in first - only the parent's glue for an *out-of-zone* name-server name breaks the circle (RFC 1034 §4.2.1 glue in
/// the wider sense; real sibling-glue delegations look like this).  Returns the two question names (`www.muta.`, `www.mutb.`).
pub fn add_mutual(u: &mut Universe, dual_stack: bool) -> Vec<DomainName> {
    let soa = |apex: &DomainName, serial: u32| FlatSoa {
        mname: child_name(apex, &["mname"]),
        rname: dn("hostmaster.invalid."),
        serial,
        refresh: 7200,
        retry: 3600,
        expire: 86400,
        minimum: 300,
    };
    let apexes = [dn("muta."), dn("mutb.")];
    let base = u.hosts.len();
    for (i, apex) in apexes.iter().enumerate() {
        u.hosts.push(UHost {
            name: child_name(apex, &["ns"]),
            v4: Some(Ipv4Addr::new(203, 0, 113, 90 + i as u8)),
            v6: if dual_stack { Some(Ipv6Addr::new(0x2001, 0xdb8, 0x113, 0, 0, 0, 0, 90 + i as u16)) } else { None },
        });
    }
    let mut out = Vec::new();
    for (i, apex) in apexes.iter().enumerate() {
        let own_host = base + i; // lives in this zone ...
        let serving = base + (1 - i); // ... which is served by the other zone's host
        let mut recs: Vec<URec> = u.addr_rrs(own_host).into_iter().map(|r| URec { owner: r.name.clone(), data: r.rtype_with_data.clone(), ttl: r.ttl }).collect();
        let www = child_name(apex, &["www"]);
        recs.push(URec { owner: www.clone(), data: a(Ipv4Addr::new(10, 223, i as u8, 1)), ttl: 300 });
        let z = u.zones.len();
        u.zones.push(UZone {
            apex: apex.clone(),
            soa: soa(apex, 9000 + i as u32),
            recs,
            ns_hosts: vec![serving],
            glue: vec![true],
            parent: Some(0),
            children: Vec::new(),
            depth: 1,
        });
        u.zones[0].children.push(z);
        out.push(www);
    }
    out
}

/// Questions worth asking in a universe: existing names, missing names and types, NS hosts, apexes, aliases.
pub fn questions(rng: &mut Rng, u: &Universe, n: usize) -> Vec<Question> {
    let names = u.all_names();
    let types = [RecordType::A, RecordType::AAAA, RecordType::TXT, RecordType::MX, RecordType::NS, RecordType::SOA];
    let mut out = Vec::new();
    for _ in 0..n {
        let name = match rng.below(8) {
            0 => {
                let z = rng.below(u.zones.len());
                child_name(&u.zones[z].apex, &[&format!("nope{}", rng.below(3))])
            }
            1 => {
                let z = rng.below(u.zones.len());
                child_name(&u.zones[z].apex, &["x", &format!("nope{}", rng.below(3))])
            }
            2 => dn(&format!("nonexistent-tld{}.", rng.below(2))),
            _ => rng.pick(&names).clone(),
        };
        let t = if rng.chance(1, 12) { RecordType::CNAME } else { *rng.pick(&types) };
        out.push(question(&name, qt(t)));
    }
    out
}

/// address -> records map used by monitors that need "which host is this"
pub fn addr_index(u: &Universe) -> BTreeMap<IpAddr, usize> {
    let mut m = BTreeMap::new();
    for (i, h) in u.hosts.iter().enumerate() {
        if let Some(a) = h.v4 {
            m.insert(IpAddr::V4(a), i);
        }
        if let Some(a) = h.v6 {
            m.insert(IpAddr::V6(a), i);
        }
    }
    m
}

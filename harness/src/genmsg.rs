//! Generator of well-formed `Message` values (C04, and the valid-corpus legs of C03/C09).

use bytes::Bytes;
use dns_types::protocol::types::*;
use std::net::{Ipv4Addr, Ipv6Addr};

use crate::rng::Rng;

pub const KNOWN_TYPES: [u16; 18] = [1, 2, 3, 4, 5, 6, 7, 8, 9, 10, 11, 12, 13, 14, 15, 16, 28, 33];

/// A label of `len` octets drawn from all ASCII octets (letters in both cases).
pub fn gen_label(rng: &mut Rng, len: usize, any_octet: bool) -> Vec<u8> {
    let mut v = Vec::with_capacity(len);
    for _ in 0..len {
        let b = if any_octet {
            (rng.below(256)) as u8
        } else {
            match rng.below(10) {
                0..=5 => b'a' + rng.below(26) as u8,
                6 => b'A' + rng.below(26) as u8,
                7 => b'0' + rng.below(10) as u8,
                8 => b'-',
                _ => *rng.pick(b"_*@\\\"();$ \t#%"),
            }
        };
        v.push(b);
    }
    v
}

pub fn gen_name(rng: &mut Rng) -> DomainName {
    loop {
        let n = match rng.below(20) {
            0 => 0,
            1..=12 => rng.range(1, 4),
            13..=17 => rng.range(3, 8),
            _ => rng.range(1, 30),
        };
        let mut labels = Vec::with_capacity(n + 1);
        let mut total = 1;
        for _ in 0..n {
            let len = match rng.below(20) {
                0 => 63,
                1 => rng.range(30, 63),
                _ => rng.range(1, 10),
            };
            if total + 1 + len > 255 {
                break;
            }
            total += 1 + len;
            let any = rng.chance(1, 8);
            labels.push(Label::try_from(&gen_label(rng, len, any)[..]).unwrap());
        }
        labels.push(Label::new());
        if let Some(d) = DomainName::from_labels(labels) {
            return d;
        }
    }
}

/// A name of exactly 255 encoded octets.
pub fn gen_max_name(rng: &mut Rng) -> DomainName {
    // 3 x (1+63) + (1+61) + 1 = 255
    let mut labels = Vec::new();
    for len in [63usize, 63, 63, 61] {
        labels.push(Label::try_from(&gen_label(rng, len, false)[..]).unwrap());
    }
    labels.push(Label::new());
    DomainName::from_labels(labels).unwrap()
}

pub struct NamePool {
    pub names: Vec<DomainName>,
}

/// A different name that is easily confused with `base`: the same octets split into labels differently (a literal '.'
/// inside a label), a parent, a child, or one label changed in its last octet.  Distinct names that a lossy key
/// (presentation form, suffix, prefix) would identify.
pub fn gen_relative(rng: &mut Rng, base: &DomainName) -> Option<DomainName> {
    let n = base.labels.len() - 1; // without the root label
    if n == 0 {
        return None;
    }
    let mut labels: Vec<Vec<u8>> = base.labels[..n].iter().map(|l| l.octets().to_vec()).collect();
    match rng.below(6) {
        0 | 1 if n >= 2 => {
            // fuse two neighbouring labels with a literal dot
            let i = rng.below(n - 1);
            let mut fused = labels[i].clone();
            fused.push(b'.');
            fused.extend_from_slice(&labels[i + 1]);
            if fused.len() > 63 {
                return None;
            }
            labels[i] = fused;
            labels.remove(i + 1);
        }
        2 => {
            // the whole presentation form as one label
            let mut one = Vec::new();
            for (k, l) in labels.iter().enumerate() {
                if k > 0 {
                    one.push(b'.');
                }
                one.extend_from_slice(l);
            }
            if one.len() > 63 {
                return None;
            }
            labels = vec![one];
        }
        3 => {
            labels.remove(0);
        }
        4 => {
            let len = rng.range(1, 5);
            labels.insert(0, gen_label(rng, len, false));
        }
        _ => {
            let i = rng.below(n);
            let last = labels[i].len() - 1;
            labels[i][last] = if labels[i][last] == b'x' { b'y' } else { b'x' };
        }
    }
    let mut ls: Vec<Label> = Vec::with_capacity(labels.len() + 1);
    for l in &labels {
        ls.push(Label::try_from(&l[..]).ok()?);
    }
    ls.push(Label::new());
    DomainName::from_labels(ls).filter(|d| d != base)
}

impl NamePool {
    pub fn new(rng: &mut Rng, n: usize) -> Self {
        let mut names = Vec::with_capacity(n);
        for i in 0..n {
            if i == 0 && rng.chance(1, 4) {
                names.push(DomainName::root_domain());
            } else if i > 0 && rng.chance(1, 4) {
                // a relative of a name already in the pool
                let base = rng.pick(&names).clone();
                names.push(gen_relative(rng, &base).unwrap_or_else(|| gen_name(rng)));
            } else if rng.chance(1, 12) {
                names.push(gen_max_name(rng));
            } else {
                names.push(gen_name(rng));
            }
        }
        NamePool { names }
    }
    pub fn pick(&self, rng: &mut Rng) -> DomainName {
        if rng.chance(1, 15) {
            gen_name(rng)
        } else {
            rng.pick(&self.names).clone()
        }
    }
}

pub fn gen_octets(rng: &mut Rng, max: usize) -> Bytes {
    let len = match rng.below(12) {
        0 => 0,
        1 => max.min(rng.range(200, 600)),
        2 => max.min(255),
        _ => max.min(rng.range(1, 40)),
    };
    Bytes::from(rng.bytes(len))
}

pub fn gen_rtype_number(rng: &mut Rng) -> u16 {
    match rng.below(10) {
        0..=6 => *rng.pick(&KNOWN_TYPES),
        7 => *rng.pick(&[0u16, 17, 27, 29, 32, 34, 41, 46, 99, 251, 252, 253, 254, 255, 256, 65535]),
        _ => rng.next_u32() as u16,
    }
}

pub fn gen_rdata(rng: &mut Rng, pool: &NamePool, tnum: u16, max_opaque: usize) -> RecordTypeWithData {
    use RecordTypeWithData as D;
    match RecordType::from(tnum) {
        RecordType::A => D::A {
            address: Ipv4Addr::from(rng.next_u32()),
        },
        RecordType::AAAA => D::AAAA {
            address: Ipv6Addr::from(u128::from(rng.next_u64()) << 64 | u128::from(rng.next_u64())),
        },
        RecordType::NS => D::NS {
            nsdname: pool.pick(rng),
        },
        RecordType::MD => D::MD {
            madname: pool.pick(rng),
        },
        RecordType::MF => D::MF {
            madname: pool.pick(rng),
        },
        RecordType::CNAME => D::CNAME {
            cname: pool.pick(rng),
        },
        RecordType::SOA => D::SOA {
            mname: pool.pick(rng),
            rname: pool.pick(rng),
            serial: rng.next_u32(),
            refresh: rng.next_u32(),
            retry: rng.next_u32(),
            expire: rng.next_u32(),
            minimum: rng.next_u32(),
        },
        RecordType::MB => D::MB {
            madname: pool.pick(rng),
        },
        RecordType::MG => D::MG {
            mdmname: pool.pick(rng),
        },
        RecordType::MR => D::MR {
            newname: pool.pick(rng),
        },
        RecordType::NULL => D::NULL {
            octets: gen_octets(rng, max_opaque),
        },
        RecordType::WKS => D::WKS {
            octets: gen_octets(rng, max_opaque),
        },
        RecordType::PTR => D::PTR {
            ptrdname: pool.pick(rng),
        },
        RecordType::HINFO => D::HINFO {
            octets: gen_octets(rng, max_opaque),
        },
        RecordType::MINFO => D::MINFO {
            rmailbx: pool.pick(rng),
            emailbx: pool.pick(rng),
        },
        RecordType::MX => D::MX {
            preference: rng.next_u32() as u16,
            exchange: pool.pick(rng),
        },
        RecordType::TXT => D::TXT {
            octets: gen_octets(rng, max_opaque),
        },
        RecordType::SRV => D::SRV {
            priority: rng.next_u32() as u16,
            weight: rng.next_u32() as u16,
            port: rng.next_u32() as u16,
            target: pool.pick(rng),
        },
        RecordType::Unknown(tag) => D::Unknown {
            tag,
            octets: gen_octets(rng, max_opaque),
        },
    }
}

pub fn gen_class(rng: &mut Rng) -> RecordClass {
    match rng.below(10) {
        0..=6 => RecordClass::IN,
        7 => RecordClass::from(*rng.pick(&[0u16, 2, 3, 4, 254, 255, 256, 65535])),
        _ => RecordClass::from(rng.next_u32() as u16),
    }
}

pub fn gen_rr(rng: &mut Rng, pool: &NamePool, max_opaque: usize) -> ResourceRecord {
    let tnum = gen_rtype_number(rng);
    ResourceRecord {
        name: pool.pick(rng),
        rtype_with_data: gen_rdata(rng, pool, tnum, max_opaque),
        rclass: gen_class(rng),
        ttl: match rng.below(6) {
            0 => 0,
            1 => u32::MAX,
            2 => 0x8000_0000,
            _ => rng.next_u32(),
        },
    }
}

pub fn gen_question(rng: &mut Rng, pool: &NamePool) -> Question {
    Question {
        name: pool.pick(rng),
        qtype: QueryType::from(match rng.below(8) {
            0 => *rng.pick(&[252u16, 253, 254, 255]),
            _ => gen_rtype_number(rng),
        }),
        qclass: QueryClass::from(match rng.below(8) {
            0 => 255,
            1 => rng.next_u32() as u16,
            _ => 1,
        }),
    }
}

pub fn header_from_bits(id: u16, bits: u32) -> Header {
    // bits: 0 qr, 1 aa, 2 tc, 3 rd, 4 ra, 5..8 opcode, 9..12 rcode
    Header {
        id,
        is_response: bits & 1 != 0,
        is_authoritative: bits & 2 != 0,
        is_truncated: bits & 4 != 0,
        recursion_desired: bits & 8 != 0,
        recursion_available: bits & 16 != 0,
        opcode: Opcode::from(((bits >> 5) & 15) as u8),
        rcode: Rcode::from(((bits >> 9) & 15) as u8),
    }
}

pub fn gen_header(rng: &mut Rng) -> Header {
    header_from_bits(rng.next_u32() as u16, rng.next_u32() & 0x1fff)
}

/// A well-formed message of the given rough shape.
pub fn gen_message(rng: &mut Rng, max_per_section: usize, max_opaque: usize) -> Message {
    let pool_n = rng.range(1, 6);
    let pool = NamePool::new(rng, pool_n);
    let nq = match rng.below(10) {
        0 => 0,
        1 => rng.range(2, 3),
        _ => 1,
    };
    let mut m = Message {
        header: gen_header(rng),
        questions: (0..nq).map(|_| gen_question(rng, &pool)).collect(),
        answers: Vec::new(),
        authority: Vec::new(),
        additional: Vec::new(),
    };
    for sec in 0..3 {
        let n = if max_per_section == 0 {
            0
        } else {
            match rng.below(4) {
                0 => 0,
                _ => rng.range(0, max_per_section),
            }
        };
        let v: Vec<ResourceRecord> = (0..n).map(|_| gen_rr(rng, &pool, max_opaque)).collect();
        match sec {
            0 => m.answers = v,
            1 => m.authority = v,
            _ => m.additional = v,
        }
    }
    m
}

/// A message whose encoding extends beyond offset 16383 and which repeats names
/// first written at or near / beyond that boundary.
pub fn gen_large_message(rng: &mut Rng) -> Message {
    let pool_n = rng.range(2, 5);
    let pool = NamePool::new(rng, pool_n);
    let late_n = rng.range(1, 4);
    let late = NamePool::new(rng, late_n); // names first used after the padding
    let mut m = Message {
        header: gen_header(rng),
        questions: vec![gen_question(rng, &pool)],
        answers: Vec::new(),
        authority: Vec::new(),
        additional: Vec::new(),
    };
    for _ in 0..rng.range(0, 3) {
        m.answers.push(gen_rr(rng, &pool, 64));
    }
    // padding: land the next record close to the 16384 boundary, or far beyond it
    let target = match rng.below(6) {
        0 => rng.range(16300, 16400),
        1 => rng.range(16384 - 40, 16384 + 40),
        2 => rng.range(30000, 60000),
        _ => rng.range(16384, 40000),
    };
    let so_far = m.to_octets().map(|b| b.len()).unwrap_or(12);
    let mut need = target.saturating_sub(so_far + 12);
    while need > 0 {
        let chunk = need.min(65000).min(rng.range(1000, 65000));
        let octets = Bytes::from(rng.bytes(chunk));
        let data = if rng.bool() {
            RecordTypeWithData::TXT { octets }
        } else {
            RecordTypeWithData::NULL { octets }
        };
        m.answers.push(ResourceRecord {
            name: pool.pick(rng),
            rtype_with_data: data,
            rclass: RecordClass::IN,
            ttl: rng.next_u32(),
        });
        need = need.saturating_sub(chunk + 14);
    }
    // now records using the late names, repeated, as owner and inside RDATA
    for _ in 0..rng.range(2, 8) {
        let owner = late.pick(rng);
        let tnum = *rng.pick(&[1u16, 2, 5, 15, 16, 6, 12, 33, 14]);
        let use_late = rng.bool();
        let data = gen_rdata(rng, if use_late { &late } else { &pool }, tnum, 64);
        let rr = ResourceRecord {
            name: owner,
            rtype_with_data: data,
            rclass: RecordClass::IN,
            ttl: rng.next_u32(),
        };
        match rng.below(3) {
            0 => m.answers.push(rr),
            1 => m.authority.push(rr),
            _ => m.additional.push(rr),
        }
    }
    m
}

//! xoshiro256** seeded through SplitMix64.  Deterministic, forkable.

#[derive(Clone, Debug)]
pub struct Rng {
    s: [u64; 4],
}

fn splitmix(x: &mut u64) -> u64 {
    *x = x.wrapping_add(0x9E37_79B9_7F4A_7C15);
    let mut z = *x;
    z = (z ^ (z >> 30)).wrapping_mul(0xBF58_476D_1CE4_E5B9);
    z = (z ^ (z >> 27)).wrapping_mul(0x94D0_49BB_1331_11EB);
    z ^ (z >> 31)
}

impl Rng {
    pub fn new(seed: u64) -> Self {
        let mut x = seed;
        Rng {
            s: [
                splitmix(&mut x),
                splitmix(&mut x),
                splitmix(&mut x),
                splitmix(&mut x),
            ],
        }
    }

    /// Independent stream derived from this seed and a tag (does not advance `self`).
    pub fn fork(&self, tag: u64) -> Self {
        let mut x = self.s[0] ^ self.s[2].rotate_left(17) ^ tag.wrapping_mul(0xD6E8_FEB8_6659_FD93);
        Rng {
            s: [
                splitmix(&mut x),
                splitmix(&mut x),
                splitmix(&mut x),
                splitmix(&mut x),
            ],
        }
    }

    pub fn next_u64(&mut self) -> u64 {
        let result = self.s[1].wrapping_mul(5).rotate_left(7).wrapping_mul(9);
        let t = self.s[1] << 17;
        self.s[2] ^= self.s[0];
        self.s[3] ^= self.s[1];
        self.s[1] ^= self.s[2];
        self.s[0] ^= self.s[3];
        self.s[2] ^= t;
        self.s[3] = self.s[3].rotate_left(45);
        result
    }

    pub fn next_u32(&mut self) -> u32 {
        (self.next_u64() >> 32) as u32
    }

    /// Uniform in `0..n` (n > 0).
    pub fn below(&mut self, n: usize) -> usize {
        debug_assert!(n > 0);
        ((self.next_u64() as u128 * n as u128) >> 64) as usize
    }

    /// Uniform in `lo..=hi`.
    pub fn range(&mut self, lo: usize, hi: usize) -> usize {
        lo + self.below(hi - lo + 1)
    }

    /// True with probability num/den.
    pub fn chance(&mut self, num: usize, den: usize) -> bool {
        self.below(den) < num
    }

    pub fn bool(&mut self) -> bool {
        self.next_u64() & 1 == 1
    }

    pub fn pick<'a, T>(&mut self, xs: &'a [T]) -> &'a T {
        &xs[self.below(xs.len())]
    }

    pub fn bytes(&mut self, n: usize) -> Vec<u8> {
        let mut v = Vec::with_capacity(n);
        while v.len() < n {
            let x = self.next_u64().to_le_bytes();
            let take = (n - v.len()).min(8);
            v.extend_from_slice(&x[..take]);
        }
        v
    }

    pub fn shuffle<T>(&mut self, xs: &mut [T]) {
        for i in (1..xs.len()).rev() {
            let j = self.below(i + 1);
            xs.swap(i, j);
        }
    }
}

/// FNV-1a 64 — used for case hashes (distinctness), not for security.
pub fn fnv(bytes: &[u8]) -> u64 {
    let mut h: u64 = 0xcbf2_9ce4_8422_2325;
    for b in bytes {
        h ^= u64::from(*b);
        h = h.wrapping_mul(0x0000_0100_0000_01B3);
    }
    h
}

pub fn fnv_mix(h: u64, x: u64) -> u64 {
    let mut h = h;
    for b in x.to_le_bytes() {
        h ^= u64::from(b);
        h = h.wrapping_mul(0x0000_0100_0000_01B3);
    }
    h
}

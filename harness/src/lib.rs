//! Shared machinery of the runtime-monitoring harness for barrucadu/resolved.
//!
//! - `rng`: deterministic PRNG seeded from VERIF_SEED
//! - `run`: per-run bookkeeping (evaluations, distinct non-trivial cases,
//!   samples, counters), violation / known-finding handling, evidence writer,
//!   three-valued exit codes
//! - `crash`: parent/worker subprocess wrapper (abort, stack overflow, hang)
//! - `names`: small helpers to build the repository's types
//! - `refmodel`: independent reference models used as oracles

pub mod crash;
pub mod genmsg;
pub mod names;
pub mod netsim;
pub mod refmodel;
pub mod rng;
pub mod run;
pub mod textgen;
pub mod universe;

pub use rng::Rng;
pub use run::{Run, Tier};

//! Fake network for the resolver (hook H1) under tokio's paused clock, and the
//! exchange log (M-XLOG).
//!
//! One `Sim` per worker thread: it owns a current-thread runtime started with the
//! clock paused, installs the transport handler for that thread, and runs one
//! `dns_resolver::resolve` call at a time.  The handler asks the `responder`
//! (supplied per case) what to do with each upstream exchange and records every
//! exchange with its virtual start and end times; the end time is taken by a drop
//! guard, i.e. when the resolver lets go of the exchange future (completion or
//! timeout).

use dns_resolver::cache::SharedCache;
use dns_resolver::util::nameserver::verif::{set_handler, Handler, Transport};
use dns_resolver::util::types::{ProtocolMode, ResolutionError, ResolvedRecord};
use dns_types::protocol::types::*;
use dns_types::zones::types::Zones;
use std::net::SocketAddr;
use std::sync::{Arc, Mutex};
use std::time::Duration;

#[derive(Clone, Debug)]
pub enum Action {
    /// reply immediately with these bytes
    Reply(Vec<u8>),
    /// reply after a (virtual) delay
    ReplyAfter(Duration, Vec<u8>),
    /// never answer
    Silence,
    /// I/O error right away (connection refused, unreachable)
    Fail,
}

#[derive(Clone, Debug)]
pub struct Exchange {
    pub index: usize,
    pub transport: Transport,
    pub addr: SocketAddr,
    /// decoded request (None if the request bytes did not parse — never expected)
    pub request: Option<Message>,
    pub start: tokio::time::Instant,
    pub end: Option<tokio::time::Instant>,
    /// what the responder decided, as a short label (e.g. "ok", "drop", "wrong-id")
    pub label: String,
    /// reply as sent (bytes), if any
    pub reply: Option<Vec<u8>>,
}

impl Exchange {
    pub fn question(&self) -> Option<&Question> {
        self.request.as_ref().and_then(|m| m.questions.first())
    }
    pub fn duration(&self) -> Option<Duration> {
        self.end.map(|e| e.duration_since(self.start))
    }
}

/// Context given to the responder for one exchange.
pub struct Ctx<'a> {
    pub index: usize,
    pub transport: Transport,
    pub addr: SocketAddr,
    pub request: Option<&'a Message>,
    pub request_bytes: &'a [u8],
}

pub type Responder = Box<dyn FnMut(&Ctx) -> (Action, String) + Send>;

pub struct NetState {
    pub log: Vec<Exchange>,
    pub responder: Responder,
}

struct EndGuard {
    state: Arc<Mutex<NetState>>,
    index: usize,
}

impl Drop for EndGuard {
    fn drop(&mut self) {
        if let Ok(mut st) = self.state.lock() {
            if let Some(e) = st.log.get_mut(self.index) {
                if e.end.is_none() {
                    e.end = Some(tokio::time::Instant::now());
                }
            }
        }
    }
}

pub fn make_handler(state: Arc<Mutex<NetState>>) -> Handler {
    Arc::new(move |addr: SocketAddr, transport: Transport, bytes: Vec<u8>| {
        let state = state.clone();
        Box::pin(async move {
            let request = Message::from_octets(&bytes).ok();
            let (action, index) = {
                let mut st = state.lock().unwrap();
                let index = st.log.len();
                let ctx = Ctx {
                    index,
                    transport,
                    addr,
                    request: request.as_ref(),
                    request_bytes: &bytes,
                };
                let (action, label) = (st.responder)(&ctx);
                let reply = match &action {
                    Action::Reply(b) | Action::ReplyAfter(_, b) => Some(b.clone()),
                    _ => None,
                };
                st.log.push(Exchange {
                    index,
                    transport,
                    addr,
                    request: request.clone(),
                    start: tokio::time::Instant::now(),
                    end: None,
                    label,
                    reply,
                });
                (action, index)
            };
            let _guard = EndGuard {
                state: state.clone(),
                index,
            };
            match action {
                Action::Reply(b) => Some(b),
                Action::ReplyAfter(d, b) => {
                    tokio::time::sleep(d).await;
                    Some(b)
                }
                Action::Silence => std::future::pending::<Option<Vec<u8>>>().await,
                Action::Fail => None,
            }
        })
    })
}

#[derive(Clone, Debug)]
pub struct Mode {
    pub recursive: bool,
    pub protocol: ProtocolMode,
    pub port: u16,
    pub forward: Option<SocketAddr>,
}

impl Mode {
    pub fn authoritative_only() -> Mode {
        Mode {
            recursive: false,
            protocol: ProtocolMode::OnlyV4,
            port: 53,
            forward: None,
        }
    }
    pub fn recursive(protocol: ProtocolMode, port: u16) -> Mode {
        Mode {
            recursive: true,
            protocol,
            port,
            forward: None,
        }
    }
    pub fn forwarding(to: SocketAddr) -> Mode {
        Mode {
            recursive: true,
            protocol: ProtocolMode::OnlyV4,
            port: 53,
            forward: Some(to),
        }
    }
    pub fn name(&self) -> &'static str {
        if !self.recursive {
            "authoritative-only"
        } else if self.forward.is_some() {
            "forwarding"
        } else {
            "recursive"
        }
    }
}

pub struct Outcome {
    pub result: Result<Result<ResolvedRecord, ResolutionError>, String>, // outer Err = panic message
    pub elapsed: Duration,
    pub log: Vec<Exchange>,
}

pub struct Sim {
    rt: tokio::runtime::Runtime,
}

impl Default for Sim {
    fn default() -> Self {
        Self::new()
    }
}

impl Sim {
    pub fn new() -> Sim {
        let rt = tokio::runtime::Builder::new_current_thread()
            .enable_time()
            .start_paused(true)
            .build()
            .expect("runtime");
        Sim { rt }
    }

    /// Run one resolution against the fake network.
    pub fn resolve(&mut self, responder: Responder, mode: &Mode, zones: &Zones, cache: &SharedCache, question: &Question) -> Outcome {
        let state = Arc::new(Mutex::new(NetState {
            log: Vec::new(),
            responder,
        }));
        set_handler(Some(make_handler(state.clone())));
        let res = std::panic::catch_unwind(std::panic::AssertUnwindSafe(|| {
            self.rt.block_on(async {
                let t0 = tokio::time::Instant::now();
                let (_metrics, result) = dns_resolver::resolve(mode.recursive, mode.protocol, mode.port, mode.forward, zones, cache, question).await;
                (result, t0.elapsed())
            })
        }));
        set_handler(None);
        let log = std::mem::take(&mut state.lock().unwrap().log);
        match res {
            Ok((result, elapsed)) => Outcome {
                result: Ok(result),
                elapsed,
                log,
            },
            Err(e) => Outcome {
                result: Err(crate::run::panic_message(&e)),
                elapsed: Duration::ZERO,
                log,
            },
        }
    }
}

/// Build a reply message to `request` (same id, question echoed, QR set).
pub fn reply_to(request: &Message, rcode: Rcode, aa: bool, answers: Vec<ResourceRecord>, authority: Vec<ResourceRecord>, additional: Vec<ResourceRecord>) -> Message {
    Message {
        header: Header {
            id: request.header.id,
            is_response: true,
            opcode: request.header.opcode,
            is_authoritative: aa,
            is_truncated: false,
            recursion_desired: request.header.recursion_desired,
            recursion_available: false,
            rcode,
        },
        questions: request.questions.clone(),
        answers,
        authority,
        additional,
    }
}

pub fn encode(m: &Message) -> Vec<u8> {
    m.to_octets().map(|b| b.to_vec()).unwrap_or_default()
}

//! Reference decoder for RFC 1035 §4.1 messages.
//!
//! Written from the RFC, with its own cursor, its own data model and iterative
//! pointer following (no recursion).  Rules (DESIGN §6 C03, tolerance T2):
//!   - label length octet 0..=63: ordinary label; 64..=191: rejected; 192..=255: pointer
//!   - a pointer must target an offset strictly below the start of the name
//!     *segment* it occurs in (the start of the name field, or the previous
//!     pointer's target)
//!   - total encoded length of a name (length octets + label octets + root) <= 255
//!   - RDLENGTH must equal the number of bytes the RDATA parse consumed in place
//!   - every entry counted in the header must be present; trailing bytes are ignored
//!   - TXT / HINFO / WKS / NULL / unknown RDATA are opaque

use dns_types::protocol::types as t;

#[derive(Clone, Debug, PartialEq, Eq, Hash, PartialOrd, Ord)]
pub struct RName(pub Vec<Vec<u8>>); // non-root labels, lower-cased

#[derive(Clone, Debug, PartialEq, Eq)]
pub enum RData {
    A([u8; 4]),
    Aaaa([u8; 16]),
    Name(RName),
    Soa {
        mname: RName,
        rname: RName,
        nums: [u32; 5],
    },
    Minfo(RName, RName),
    Mx(u16, RName),
    Srv(u16, u16, u16, RName),
    Opaque(Vec<u8>),
}

#[derive(Clone, Debug, PartialEq, Eq)]
pub struct RRec {
    pub name: RName,
    pub rtype: u16,
    pub rclass: u16,
    pub ttl: u32,
    pub data: RData,
}

#[derive(Clone, Debug, PartialEq, Eq)]
pub struct RMsg {
    pub id: u16,
    pub qr: bool,
    pub opcode: u8,
    pub aa: bool,
    pub tc: bool,
    pub rd: bool,
    pub ra: bool,
    pub rcode: u8,
    pub questions: Vec<(RName, u16, u16)>,
    pub answers: Vec<RRec>,
    pub authority: Vec<RRec>,
    pub additional: Vec<RRec>,
}

#[derive(Clone, Debug, PartialEq, Eq)]
pub enum RefErr {
    NoId,
    Header,
    Truncated,
    LabelType,
    Pointer,
    NameTooLong,
    RdLength,
}

/// One name read during decoding: where its field starts, the pointer targets
/// followed, and what it expanded to.
#[derive(Clone, Debug)]
pub struct NameTrace {
    pub start: usize,
    pub pointers: Vec<(usize, usize)>, // (offset of the pointer, target)
    pub name: RName,
}

#[derive(Default)]
pub struct Trace {
    pub names: Vec<NameTrace>,
    pub steps: u64,
    pub max_hops: usize,
    pub consumed: usize,
}

struct Cur<'a> {
    b: &'a [u8],
    p: usize,
}

impl<'a> Cur<'a> {
    fn u8(&mut self) -> Result<u8, RefErr> {
        let v = *self.b.get(self.p).ok_or(RefErr::Truncated)?;
        self.p += 1;
        Ok(v)
    }
    fn u16(&mut self) -> Result<u16, RefErr> {
        if self.p + 2 > self.b.len() {
            return Err(RefErr::Truncated);
        }
        let v = u16::from_be_bytes([self.b[self.p], self.b[self.p + 1]]);
        self.p += 2;
        Ok(v)
    }
    fn u32(&mut self) -> Result<u32, RefErr> {
        if self.p + 4 > self.b.len() {
            return Err(RefErr::Truncated);
        }
        let v = u32::from_be_bytes([
            self.b[self.p],
            self.b[self.p + 1],
            self.b[self.p + 2],
            self.b[self.p + 3],
        ]);
        self.p += 4;
        Ok(v)
    }
    fn take(&mut self, n: usize) -> Result<&'a [u8], RefErr> {
        if self.p + n > self.b.len() {
            return Err(RefErr::Truncated);
        }
        let s = &self.b[self.p..self.p + n];
        self.p += n;
        Ok(s)
    }
}

fn read_name(c: &mut Cur, tr: &mut Trace) -> Result<RName, RefErr> {
    let field_start = c.p;
    let mut labels: Vec<Vec<u8>> = Vec::new();
    let mut total = 0usize;
    let mut at = c.p; // where we are reading
    let mut seg_start = c.p; // start of the current segment
    let mut resume: Option<usize> = None; // where the field ends (set at the first pointer)
    let mut pointers = Vec::new();
    loop {
        tr.steps += 1;
        let b = *c.b.get(at).ok_or(RefErr::Truncated)?;
        if b <= 63 {
            total += 1;
            if b == 0 {
                at += 1;
                break;
            }
            let n = b as usize;
            if at + 1 + n > c.b.len() {
                return Err(RefErr::Truncated);
            }
            labels.push(c.b[at + 1..at + 1 + n].to_ascii_lowercase());
            total += n;
            at += 1 + n;
            if total > 255 {
                return Err(RefErr::NameTooLong);
            }
        } else if b >= 192 {
            let lo = *c.b.get(at + 1).ok_or(RefErr::Truncated)?;
            let target = (((b & 0x3f) as usize) << 8) | lo as usize;
            if target >= seg_start {
                return Err(RefErr::Pointer);
            }
            pointers.push((at, target));
            if resume.is_none() {
                resume = Some(at + 2);
            }
            at = target;
            seg_start = target;
        } else {
            return Err(RefErr::LabelType);
        }
    }
    if total > 255 {
        return Err(RefErr::NameTooLong);
    }
    c.p = resume.unwrap_or(at);
    if pointers.len() > tr.max_hops {
        tr.max_hops = pointers.len();
    }
    let name = RName(labels);
    tr.names.push(NameTrace {
        start: field_start,
        pointers,
        name: name.clone(),
    });
    Ok(name)
}

/// Shape of the RDATA for a type number (own table, from RFC 1035 §3.3, RFC 3596, RFC 2782).
fn read_rdata(rtype: u16, rdlength: usize, c: &mut Cur, tr: &mut Trace) -> Result<RData, RefErr> {
    Ok(match rtype {
        1 => {
            let s = c.take(4)?;
            RData::A([s[0], s[1], s[2], s[3]])
        }
        28 => {
            let s = c.take(16)?;
            let mut a = [0u8; 16];
            a.copy_from_slice(s);
            RData::Aaaa(a)
        }
        2 | 3 | 4 | 5 | 7 | 8 | 9 | 12 => RData::Name(read_name(c, tr)?),
        6 => {
            let mname = read_name(c, tr)?;
            let rname = read_name(c, tr)?;
            let mut nums = [0u32; 5];
            for n in &mut nums {
                *n = c.u32()?;
            }
            RData::Soa { mname, rname, nums }
        }
        14 => {
            let r = read_name(c, tr)?;
            let e = read_name(c, tr)?;
            RData::Minfo(r, e)
        }
        15 => {
            let p = c.u16()?;
            RData::Mx(p, read_name(c, tr)?)
        }
        33 => {
            let p = c.u16()?;
            let w = c.u16()?;
            let port = c.u16()?;
            RData::Srv(p, w, port, read_name(c, tr)?)
        }
        _ => RData::Opaque(c.take(rdlength)?.to_vec()),
    })
}

fn read_rr(c: &mut Cur, tr: &mut Trace) -> Result<RRec, RefErr> {
    let name = read_name(c, tr)?;
    let rtype = c.u16()?;
    let rclass = c.u16()?;
    let ttl = c.u32()?;
    let rdlength = c.u16()? as usize;
    let start = c.p;
    let data = read_rdata(rtype, rdlength, c, tr)?;
    if c.p != start + rdlength {
        return Err(RefErr::RdLength);
    }
    Ok(RRec {
        name,
        rtype,
        rclass,
        ttl,
        data,
    })
}

pub fn decode(bytes: &[u8]) -> Result<(RMsg, Trace), RefErr> {
    let mut tr = Trace::default();
    let m = decode_with(bytes, &mut tr)?;
    Ok((m, tr))
}

pub fn decode_with(bytes: &[u8], tr: &mut Trace) -> Result<RMsg, RefErr> {
    if bytes.len() < 2 {
        return Err(RefErr::NoId);
    }
    if bytes.len() < 12 {
        return Err(RefErr::Header);
    }
    let mut c = Cur { b: bytes, p: 0 };
    let id = c.u16()?;
    let f1 = c.u8()?;
    let f2 = c.u8()?;
    let qd = c.u16()?;
    let an = c.u16()?;
    let ns = c.u16()?;
    let ar = c.u16()?;
    let mut questions = Vec::new();
    for _ in 0..qd {
        let n = read_name(&mut c, tr)?;
        let qt = c.u16()?;
        let qc = c.u16()?;
        questions.push((n, qt, qc));
    }
    let mut sections: [Vec<RRec>; 3] = [Vec::new(), Vec::new(), Vec::new()];
    for (i, count) in [an, ns, ar].iter().enumerate() {
        for _ in 0..*count {
            sections[i].push(read_rr(&mut c, tr)?);
        }
    }
    tr.consumed = c.p;
    let [answers, authority, additional] = sections;
    Ok(RMsg {
        id,
        qr: f1 & 0x80 != 0,
        opcode: (f1 >> 3) & 0x0f,
        aa: f1 & 0x04 != 0,
        tc: f1 & 0x02 != 0,
        rd: f1 & 0x01 != 0,
        ra: f2 & 0x80 != 0,
        rcode: f2 & 0x0f,
        questions,
        answers,
        authority,
        additional,
    })
}

// ---------------------------------------------------------------------------
// Conversion of the crate's Message into the reference model (reads only).

pub fn rname_of(n: &t::DomainName) -> RName {
    let mut v = Vec::new();
    for l in &n.labels {
        if !l.is_empty() {
            v.push(l.octets().to_vec());
        }
    }
    RName(v)
}

pub fn rdata_of(d: &t::RecordTypeWithData) -> RData {
    use t::RecordTypeWithData as D;
    match d {
        D::A { address } => RData::A(address.octets()),
        D::AAAA { address } => RData::Aaaa(address.octets()),
        D::NS { nsdname } => RData::Name(rname_of(nsdname)),
        D::MD { madname } | D::MF { madname } | D::MB { madname } => RData::Name(rname_of(madname)),
        D::CNAME { cname } => RData::Name(rname_of(cname)),
        D::MG { mdmname } => RData::Name(rname_of(mdmname)),
        D::MR { newname } => RData::Name(rname_of(newname)),
        D::PTR { ptrdname } => RData::Name(rname_of(ptrdname)),
        D::SOA {
            mname,
            rname,
            serial,
            refresh,
            retry,
            expire,
            minimum,
        } => RData::Soa {
            mname: rname_of(mname),
            rname: rname_of(rname),
            nums: [*serial, *refresh, *retry, *expire, *minimum],
        },
        D::MINFO { rmailbx, emailbx } => RData::Minfo(rname_of(rmailbx), rname_of(emailbx)),
        D::MX {
            preference,
            exchange,
        } => RData::Mx(*preference, rname_of(exchange)),
        D::SRV {
            priority,
            weight,
            port,
            target,
        } => RData::Srv(*priority, *weight, *port, rname_of(target)),
        D::NULL { octets }
        | D::WKS { octets }
        | D::HINFO { octets }
        | D::TXT { octets }
        | D::Unknown { octets, .. } => RData::Opaque(octets.to_vec()),
    }
}

/// The type number a variant stands for (own table, not the crate's `From`).
pub fn type_number_of(d: &t::RecordTypeWithData) -> u16 {
    use t::RecordTypeWithData as D;
    match d {
        D::A { .. } => 1,
        D::NS { .. } => 2,
        D::MD { .. } => 3,
        D::MF { .. } => 4,
        D::CNAME { .. } => 5,
        D::SOA { .. } => 6,
        D::MB { .. } => 7,
        D::MG { .. } => 8,
        D::MR { .. } => 9,
        D::NULL { .. } => 10,
        D::WKS { .. } => 11,
        D::PTR { .. } => 12,
        D::HINFO { .. } => 13,
        D::MINFO { .. } => 14,
        D::MX { .. } => 15,
        D::TXT { .. } => 16,
        D::AAAA { .. } => 28,
        D::SRV { .. } => 33,
        D::Unknown { tag, .. } => u16::from(t::RecordType::Unknown(*tag)),
    }
}

pub fn rrec_of(rr: &t::ResourceRecord) -> RRec {
    RRec {
        name: rname_of(&rr.name),
        rtype: type_number_of(&rr.rtype_with_data),
        rclass: u16::from(rr.rclass),
        ttl: rr.ttl,
        data: rdata_of(&rr.rtype_with_data),
    }
}

pub fn rmsg_of(m: &t::Message) -> RMsg {
    RMsg {
        id: m.header.id,
        qr: m.header.is_response,
        opcode: u8::from(m.header.opcode),
        aa: m.header.is_authoritative,
        tc: m.header.is_truncated,
        rd: m.header.recursion_desired,
        ra: m.header.recursion_available,
        rcode: u8::from(m.header.rcode),
        questions: m
            .questions
            .iter()
            .map(|q| (rname_of(&q.name), u16::from(q.qtype), u16::from(q.qclass)))
            .collect(),
        answers: m.answers.iter().map(rrec_of).collect(),
        authority: m.authority.iter().map(rrec_of).collect(),
        additional: m.additional.iter().map(rrec_of).collect(),
    }
}

/// First difference between two reference messages, as text.
pub fn diff(a: &RMsg, b: &RMsg) -> Option<String> {
    if a == b {
        return None;
    }
    macro_rules! f {
        ($field:ident) => {
            if a.$field != b.$field {
                return Some(format!(
                    "{}: {:?} vs {:?}",
                    stringify!($field),
                    a.$field,
                    b.$field
                ));
            }
        };
    }
    f!(id);
    f!(qr);
    f!(opcode);
    f!(aa);
    f!(tc);
    f!(rd);
    f!(ra);
    f!(rcode);
    if a.questions != b.questions {
        return Some(format!(
            "questions differ ({} vs {})",
            a.questions.len(),
            b.questions.len()
        ));
    }
    for (sec, x, y) in [
        ("answers", &a.answers, &b.answers),
        ("authority", &a.authority, &b.authority),
        ("additional", &a.additional, &b.additional),
    ] {
        if x.len() != y.len() {
            return Some(format!("{sec}: {} vs {} records", x.len(), y.len()));
        }
        for (i, (r, s)) in x.iter().zip(y.iter()).enumerate() {
            if r != s {
                let mut rs = format!("{r:?}");
                let mut ss = format!("{s:?}");
                rs.truncate(300);
                ss.truncate(300);
                return Some(format!("{sec}[{i}]: {rs} vs {ss}"));
            }
        }
    }
    Some("differ".into())
}

//! Independent reference models (oracles).  None of these call into the code
//! under test for the decision they make; they only *read* its public data
//! types when converting a result for comparison.

pub mod wire;
pub mod zone;

//! Reference model of authoritative zone lookup (RFC 1034 §4.3.2 step 3, RFC 4592),
//! over a *flat* record list (the implementation uses a label tree).
//!
//! Outside the model (deviation D1): records beneath, or a wildcard at, a
//! non-apex delegation point; wildcard NS; more than one CNAME at a node.

use dns_types::protocol::types::*;

#[derive(Clone, Debug)]
pub struct FlatRec {
    /// For a wildcard record this is the name the `*` label is attached to (`*.owner`).
    pub owner: DomainName,
    pub wildcard: bool,
    pub data: RecordTypeWithData,
    /// TTL as configured (before the SOA-minimum clamp).
    pub ttl: u32,
}

#[derive(Clone, Debug)]
pub struct FlatSoa {
    pub mname: DomainName,
    pub rname: DomainName,
    pub serial: u32,
    pub refresh: u32,
    pub retry: u32,
    pub expire: u32,
    pub minimum: u32,
}

impl FlatSoa {
    pub fn rdata(&self) -> RecordTypeWithData {
        RecordTypeWithData::SOA {
            mname: self.mname.clone(),
            rname: self.rname.clone(),
            serial: self.serial,
            refresh: self.refresh,
            retry: self.retry,
            expire: self.expire,
            minimum: self.minimum,
        }
    }
    pub fn rr(&self, apex: &DomainName) -> ResourceRecord {
        ResourceRecord {
            name: apex.clone(),
            rtype_with_data: self.rdata(),
            rclass: RecordClass::IN,
            ttl: self.minimum,
        }
    }
}

#[derive(Clone, Debug)]
pub struct FlatZone {
    pub apex: DomainName,
    pub soa: Option<FlatSoa>,
    pub recs: Vec<FlatRec>,
    /// the TTLs in `recs` are final (already clamped by whichever file they came from)
    pub preclamped: bool,
}

#[derive(Clone, Debug, PartialEq, Eq)]
pub enum RefResult {
    Answer(Vec<ResourceRecord>),
    Cname(ResourceRecord),
    Referral(Vec<ResourceRecord>),
    NameError,
}

/// label-wise suffix test, done on octets (does not use `is_subdomain_of`)
pub fn is_suffix(name: &DomainName, suffix: &DomainName) -> bool {
    let n = name.labels.len();
    let s = suffix.labels.len();
    if s > n {
        return false;
    }
    for i in 0..s {
        if name.labels[n - s + i].octets() != suffix.labels[i].octets() {
            return false;
        }
    }
    true
}

pub fn same_name(a: &DomainName, b: &DomainName) -> bool {
    a.labels.len() == b.labels.len() && is_suffix(a, b)
}

/// The ancestor of `name` that has exactly `k` labels (counting the root label).
pub fn suffix_of(name: &DomainName, k: usize) -> DomainName {
    let n = name.labels.len();
    DomainName::from_labels(name.labels[n - k..].to_vec()).expect("suffix of a valid name")
}

impl FlatZone {
    pub fn is_authoritative(&self) -> bool {
        self.soa.is_some()
    }

    /// TTL a record is served with: raised to the SOA minimum in an authoritative zone.
    pub fn served_ttl(&self, ttl: u32) -> u32 {
        match &self.soa {
            Some(s) if !self.preclamped => ttl.max(s.minimum),
            _ => ttl,
        }
    }

    fn rr(&self, owner: &DomainName, r: &FlatRec) -> ResourceRecord {
        ResourceRecord {
            name: owner.clone(),
            rtype_with_data: r.data.clone(),
            rclass: RecordClass::IN,
            ttl: self.served_ttl(r.ttl),
        }
    }

    /// Records (non-wildcard) owned by exactly `name`, SOA included at the apex; deduplicated.
    pub fn records_at(&self, name: &DomainName) -> Vec<ResourceRecord> {
        let mut out: Vec<ResourceRecord> = Vec::new();
        if same_name(name, &self.apex) {
            if let Some(s) = &self.soa {
                out.push(s.rr(&self.apex));
            }
        }
        for r in &self.recs {
            if !r.wildcard && same_name(&r.owner, name) {
                let rr = self.rr(name, r);
                if !out.contains(&rr) {
                    out.push(rr);
                }
            }
        }
        out
    }

    /// Wildcard records attached to `parent` (`*.parent`), rendered with owner `as_name`.
    pub fn wildcards_at(&self, parent: &DomainName, as_name: &DomainName) -> Vec<ResourceRecord> {
        let mut out: Vec<ResourceRecord> = Vec::new();
        for r in &self.recs {
            if r.wildcard && same_name(&r.owner, parent) {
                let rr = self.rr(as_name, r);
                if !out.contains(&rr) {
                    out.push(rr);
                }
            }
        }
        out
    }

    /// Does `name` exist in the zone: it owns a record, or something (a record
    /// owner or a wildcard owner `*.x`) lies at or beneath it.
    pub fn exists(&self, name: &DomainName) -> bool {
        if same_name(name, &self.apex) {
            return true;
        }
        for r in &self.recs {
            // a wildcard record `*.owner` is itself a name beneath `owner`
            if is_suffix(&r.owner, name) {
                return true;
            }
        }
        false
    }

    pub fn lookup(&self, qname: &DomainName, qtype: QueryType) -> Option<RefResult> {
        if !is_suffix(qname, &self.apex) {
            return None;
        }
        let apex_len = self.apex.labels.len();
        let q_len = qname.labels.len();

        // 1. delegation: walk from just below the apex down to the qname
        for k in (apex_len + 1)..=q_len {
            let anc = suffix_of(qname, k);
            let ns: Vec<ResourceRecord> = self
                .records_at(&anc)
                .into_iter()
                .filter(|rr| matches!(rr.rtype_with_data, RecordTypeWithData::NS { .. }))
                .collect();
            if !ns.is_empty() {
                if k == q_len && qtype == QueryType::Record(RecordType::NS) {
                    break; // NS question at the delegation point itself: answered directly
                }
                return Some(RefResult::Referral(ns));
            }
        }

        // 2. the name exists
        if self.exists(qname) {
            return Some(apply_rules(self.records_at(qname), qtype));
        }

        // 3. wildcard at the closest existing ancestor
        let mut k = q_len - 1;
        loop {
            let anc = suffix_of(qname, k);
            if self.exists(&anc) {
                let set = self.wildcards_at(&anc, qname);
                if set.is_empty() {
                    return Some(RefResult::NameError);
                }
                return Some(apply_rules(set, qtype));
            }
            if k == apex_len {
                // the apex always exists, so this is unreachable; be safe
                return Some(RefResult::NameError);
            }
            k -= 1;
        }
    }
}

fn apply_rules(set: Vec<ResourceRecord>, qtype: QueryType) -> RefResult {
    let wants_cname = matches!(
        qtype,
        QueryType::Wildcard | QueryType::Record(RecordType::CNAME)
    );
    if !wants_cname {
        if let Some(c) = set
            .iter()
            .find(|rr| matches!(rr.rtype_with_data, RecordTypeWithData::CNAME { .. }))
        {
            return RefResult::Cname(c.clone());
        }
    }
    match qtype {
        QueryType::Wildcard => RefResult::Answer(set),
        QueryType::Record(t) => RefResult::Answer(
            set.into_iter()
                .filter(|rr| rr.rtype_with_data.rtype() == t)
                .collect(),
        ),
        _ => RefResult::Answer(Vec::new()),
    }
}

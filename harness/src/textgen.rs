//! Generators for configuration text where the generator knows the answer:
//! an abstract record list rendered as RFC 1035 §5 master-file text with
//! independently chosen syntax variants, and hosts(5) text.

use bytes::Bytes;
use dns_types::protocol::types::*;
use std::collections::{BTreeMap, BTreeSet};
use std::net::{Ipv4Addr, Ipv6Addr};

use crate::refmodel::zone::{is_suffix, same_name, FlatSoa};
use crate::rng::Rng;

pub const MNEMONICS: [&str; 18] = [
    "A", "NS", "MD", "MF", "CNAME", "SOA", "MB", "MG", "MR", "NULL", "WKS", "PTR", "HINFO", "MINFO", "MX", "TXT", "AAAA", "SRV",
];

/// True if a token, as written, could be taken for a type / class / directive / TTL by a master-file reader.
pub fn looks_like_keyword(tok: &str) -> bool {
    MNEMONICS.contains(&tok)
        || tok == "IN"
        || tok == "CH"
        || tok == "HS"
        || tok == "CS"
        || tok == "@"
        || tok.starts_with("TYPE")
        || tok.starts_with("CLASS")
        || tok.starts_with('$')
}

#[derive(Clone, Debug, PartialEq, Eq)]
pub struct ARec {
    pub owner: DomainName,
    pub wildcard: bool,
    pub ttl: u32,
    pub data: RecordTypeWithData,
}

#[derive(Clone, Debug)]
pub struct AFile {
    /// (apex, soa, TTL written on the SOA line — None = omitted)
    pub soa: Option<(DomainName, FlatSoa, Option<u32>)>,
    pub recs: Vec<ARec>,
}

/// What the text denotes, after the documented normalisation.
#[derive(Clone, Debug, PartialEq, Eq)]
pub struct Expected {
    pub apex: DomainName,
    pub soa: Option<(DomainName, DomainName, [u32; 5])>,
    /// (owner, wildcard) -> set of (rendered rdata via Debug is avoided: we keep the value, ttl)
    pub records: BTreeMap<(DomainName, bool), BTreeSet<(RecordTypeWithData, u32)>>,
}

impl AFile {
    pub fn expected(&self) -> Expected {
        let (apex, min) = match &self.soa {
            Some((apex, soa, _)) => (apex.clone(), Some(soa.minimum)),
            None => (DomainName::root_domain(), None),
        };
        let mut records: BTreeMap<(DomainName, bool), BTreeSet<(RecordTypeWithData, u32)>> = BTreeMap::new();
        if let Some((apex, soa, _)) = &self.soa {
            records
                .entry((apex.clone(), false))
                .or_default()
                .insert((soa.rdata(), soa.minimum));
        }
        for r in &self.recs {
            let ttl = match min {
                Some(m) => r.ttl.max(m),
                None => r.ttl,
            };
            records
                .entry((r.owner.clone(), r.wildcard))
                .or_default()
                .insert((r.data.clone(), ttl));
        }
        Expected {
            apex,
            soa: self.soa.as_ref().map(|(_, s, _)| {
                (
                    s.mname.clone(),
                    s.rname.clone(),
                    [s.serial, s.refresh, s.retry, s.expire, s.minimum],
                )
            }),
            records,
        }
    }
}

/// What a parsed zone holds, in the same shape.
pub fn observed(zone: &dns_types::zones::types::Zone) -> Expected {
    let mut records: BTreeMap<(DomainName, bool), BTreeSet<(RecordTypeWithData, u32)>> = BTreeMap::new();
    for (name, zrs) in zone.all_records() {
        for zr in zrs {
            records
                .entry((name.clone(), false))
                .or_default()
                .insert((zr.rtype_with_data.clone(), zr.ttl));
        }
    }
    for (name, zrs) in zone.all_wildcard_records() {
        for zr in zrs {
            records
                .entry((name.clone(), true))
                .or_default()
                .insert((zr.rtype_with_data.clone(), zr.ttl));
        }
    }
    Expected {
        apex: zone.get_apex().clone(),
        soa: zone.get_soa().map(|s| {
            (
                s.mname.clone(),
                s.rname.clone(),
                [s.serial, s.refresh, s.retry, s.expire, s.minimum],
            )
        }),
        records,
    }
}

/// Number of records held (counting duplicates the API would report twice).
pub fn observed_count(zone: &dns_types::zones::types::Zone) -> usize {
    zone.all_records().values().map(Vec::len).sum::<usize>() + zone.all_wildcard_records().values().map(Vec::len).sum::<usize>()
}

pub fn expected_count(e: &Expected) -> usize {
    e.records.values().map(BTreeSet::len).sum()
}

pub fn diff_expected(want: &Expected, got: &Expected) -> Option<String> {
    if want.apex != got.apex {
        return Some(format!("apex: expected {:?}, got {:?}", want.apex, got.apex));
    }
    if want.soa != got.soa {
        return Some(format!("SOA: expected {:?}, got {:?}", want.soa, got.soa));
    }
    for (k, v) in &want.records {
        match got.records.get(k) {
            None => return Some(format!("records of {}{:?} missing entirely (expected {} records)", if k.1 { "*." } else { "" }, k.0, v.len())),
            Some(g) => {
                for r in v {
                    if !g.contains(r) {
                        return Some(format!("missing at {}{:?}: {:?} ttl {}", if k.1 { "*." } else { "" }, k.0, r.0, r.1));
                    }
                }
                for r in g {
                    if !v.contains(r) {
                        return Some(format!("unexpected at {}{:?}: {:?} ttl {}", if k.1 { "*." } else { "" }, k.0, r.0, r.1));
                    }
                }
            }
        }
    }
    for (k, g) in &got.records {
        if !want.records.contains_key(k) {
            return Some(format!("unexpected owner {}{:?} with {} records", if k.1 { "*." } else { "" }, k.0, g.len()));
        }
    }
    None
}

// ---------------------------------------------------------------------------
// abstract generation

#[derive(Clone, Copy, Debug, PartialEq, Eq)]
pub enum LabelStyle {
    /// letters, digits, hyphen
    Plain,
    /// every ASCII octet obtainable in text except '.'
    Hostile,
}

pub fn gen_text_label(rng: &mut Rng, style: LabelStyle) -> Vec<u8> {
    // words of the master-file syntax used as labels: a label is data wherever the grammar expects a name
    if rng.chance(1, 14) {
        let words: &[&[u8]] = if style == LabelStyle::Hostile {
            &[b"$origin", b"$include", b"$ttl", b"$", b"in", b"ch", b"a", b"ns", b"soa", b"cname", b"txt", b"mx", b"300", b"0", b"@", b"any"]
        } else {
            &[b"in", b"ch", b"a", b"ns", b"soa", b"cname", b"txt", b"mx", b"aaaa", b"300", b"0", b"any", b"origin", b"include"]
        };
        return rng.pick(words).to_vec();
    }
    let len = match rng.below(12) {
        0 => rng.range(10, 30),
        1 => 63,
        _ => rng.range(1, 5),
    };
    let len = if style == LabelStyle::Hostile { len.min(8) } else { len.min(20) };
    let mut v = Vec::with_capacity(len);
    for i in 0..len {
        let b = match style {
            LabelStyle::Plain => match rng.below(12) {
                0 => b'0' + rng.below(10) as u8,
                1 if i > 0 => b'-',
                _ => b'a' + rng.below(4) as u8,
            },
            LabelStyle::Hostile => match rng.below(10) {
                0..=3 => b'a' + rng.below(3) as u8,
                4 => *rng.pick(b"\"\\;() \t\n@*$#%'`!<>[]{}|~^&=+,/?:_-"),
                5 => rng.below(32) as u8,
                6 => 127,
                7 => b'0' + rng.below(10) as u8,
                _ => {
                    let c = rng.below(128) as u8;
                    c.to_ascii_lowercase()
                }
            },
        };
        v.push(if b == b'.' { b'-' } else { b.to_ascii_lowercase() });
    }
    v
}

/// A name `depth` labels below `base`.  `first_label_ok`: predicate on the leftmost label.
pub fn gen_name_below(rng: &mut Rng, base: &DomainName, depth: usize, style: LabelStyle, pool: &[Vec<u8>], no_star_first: bool) -> DomainName {
    loop {
        let mut labels: Vec<Label> = Vec::new();
        for i in 0..depth {
            let mut l = if !pool.is_empty() && rng.chance(2, 3) {
                rng.pick(pool).clone()
            } else {
                gen_text_label(rng, style)
            };
            if i == 0 && no_star_first && l.first() == Some(&b'*') {
                l[0] = b'x';
            }
            labels.push(Label::try_from(&l[..]).unwrap());
        }
        labels.extend_from_slice(&base.labels);
        if let Some(n) = DomainName::from_labels(labels) {
            return n;
        }
    }
}

pub fn gen_text_octets(rng: &mut Rng, hostile: bool) -> Bytes {
    let len = match rng.below(10) {
        0 => 0,
        1 => rng.range(20, 80),
        _ => rng.range(1, 10),
    };
    let mut v = Vec::with_capacity(len);
    for _ in 0..len {
        v.push(if hostile {
            match rng.below(6) {
                0 => *rng.pick(b"\"\\;() \t\n@*$"),
                1 => rng.below(256) as u8,
                2 => 128 + rng.below(128) as u8,
                _ => b'a' + rng.below(26) as u8,
            }
        } else {
            match rng.below(8) {
                0 => b' ',
                1 => b'A' + rng.below(26) as u8,
                _ => b'a' + rng.below(26) as u8,
            }
        });
    }
    Bytes::from(v)
}

pub struct ZoneGenCfg {
    pub style: LabelStyle,
    pub hostile_octets: bool,
    pub max_records: usize,
}

pub fn gen_rdata_text(rng: &mut Rng, names: &mut dyn FnMut(&mut Rng) -> DomainName, hostile_octets: bool, tag: u8) -> RecordTypeWithData {
    use RecordTypeWithData as D;
    match rng.below(24) {
        0..=5 => D::A {
            address: Ipv4Addr::new(10, tag, rng.below(256) as u8, rng.below(256) as u8),
        },
        6 | 7 => D::AAAA {
            address: match rng.below(4) {
                0 => Ipv6Addr::new(0xfd00, tag.into(), 0, 0, 0, 0, 0, rng.below(65536) as u16),
                1 => Ipv6Addr::new(0x2001, 0xdb8, rng.below(65536) as u16, 0, 0, rng.below(65536) as u16, 0, 1),
                2 => Ipv6Addr::from(u128::from(rng.next_u64()) << 64 | u128::from(rng.next_u64())),
                _ => Ipv4Addr::new(192, 0, 2, rng.below(256) as u8).to_ipv6_mapped(),
            },
        },
        8 | 9 => D::TXT {
            octets: gen_text_octets(rng, hostile_octets),
        },
        10 => D::CNAME { cname: names(rng) },
        11 => D::NS { nsdname: names(rng) },
        12 => D::MX {
            preference: rng.below(65536) as u16,
            exchange: names(rng),
        },
        13 => D::PTR { ptrdname: names(rng) },
        14 => D::SRV {
            priority: rng.below(65536) as u16,
            weight: rng.below(3) as u16,
            port: rng.below(65536) as u16,
            target: names(rng),
        },
        15 => D::HINFO {
            octets: gen_text_octets(rng, hostile_octets),
        },
        16 => D::MINFO {
            rmailbx: names(rng),
            emailbx: names(rng),
        },
        17 => D::MB { madname: names(rng) },
        18 => D::MG { mdmname: names(rng) },
        19 => D::MR { newname: names(rng) },
        20 => D::MD { madname: names(rng) },
        21 => D::MF { madname: names(rng) },
        22 => D::NULL {
            octets: gen_text_octets(rng, hostile_octets),
        },
        _ => D::WKS {
            octets: gen_text_octets(rng, hostile_octets),
        },
    }
}

pub fn gen_soa(rng: &mut Rng, apex: &DomainName, style: LabelStyle) -> FlatSoa {
    FlatSoa {
        mname: gen_name_below(rng, apex, 1, style, &[], false),
        rname: if rng.bool() {
            gen_name_below(rng, apex, 1, style, &[], false)
        } else {
            gen_name_below(rng, &DomainName::root_domain(), 2, LabelStyle::Plain, &[], false)
        },
        serial: rng.next_u32(),
        refresh: rng.below(100_000) as u32,
        retry: rng.below(100_000) as u32,
        expire: rng.next_u32(),
        minimum: *rng.pick(&[0u32, 1, 60, 300, 3600, 86400]),
    }
}

pub fn gen_afile(rng: &mut Rng, cfg: &ZoneGenCfg, force_apex: Option<Option<DomainName>>) -> AFile {
    let style = cfg.style;
    let apex_choice: Option<DomainName> = match force_apex {
        Some(a) => a,
        None => match rng.below(5) {
            0 => None,
            1 => Some(DomainName::root_domain()),
            _ => {
                let d = rng.range(1, 3);
                Some(gen_name_below(rng, &DomainName::root_domain(), d, style, &[], true))
            }
        },
    };
    let soa = apex_choice.as_ref().map(|apex| {
        let s = gen_soa(rng, apex, style);
        let written = match rng.below(3) {
            0 => None,
            1 => Some(s.minimum),
            _ => Some(*rng.pick(&[0u32, 30, 300, 7200])),
        };
        (apex.clone(), s, written)
    });
    let base = apex_choice.clone().unwrap_or_else(DomainName::root_domain);
    let pool: Vec<Vec<u8>> = (0..4).map(|_| gen_text_label(rng, style)).collect();
    let n = rng.range(0, cfg.max_records);
    let mut recs = Vec::with_capacity(n);
    let mut owners: Vec<(DomainName, bool)> = Vec::new();
    for i in 0..n {
        let (owner, wildcard) = if !owners.is_empty() && rng.chance(1, 3) {
            rng.pick(&owners).clone()
        } else {
            let depth = match rng.below(8) {
                0 => 0,
                1 => rng.range(2, 4),
                _ => 1,
            };
            let o = gen_name_below(rng, &base, depth, style, &pool, true);
            (o, rng.chance(1, 6))
        };
        owners.push((owner.clone(), wildcard));
        let base2 = base.clone();
        let pool2 = pool.clone();
        let mut names = |rng: &mut Rng| -> DomainName {
            match rng.below(4) {
                0 => base2.clone(),
                1 => {
                    let d = rng.below(3) + 1;
                    gen_name_below(rng, &DomainName::root_domain(), d, style, &pool2, false)
                }
                _ => {
                    let d = rng.below(2) + 1;
                    gen_name_below(rng, &base2, d, style, &pool2, false)
                }
            }
        };
        let data = gen_rdata_text(rng, &mut names, cfg.hostile_octets, (i % 250) as u8);
        recs.push(ARec {
            owner,
            wildcard,
            ttl: *rng.pick(&[0u32, 1, 30, 300, 300, 300, 3600, 86400, u32::MAX]),
            data,
        });
    }
    AFile { soa, recs }
}

// ---------------------------------------------------------------------------
// rendering

pub struct Renderer<'a> {
    pub rng: &'a mut Rng,
    pub out: String,
    origin: Option<DomainName>,
    prev_owner: Option<(DomainName, bool)>,
    prev_ttl: Option<u32>,
    /// syntax variants used (for evidence)
    pub features: BTreeSet<&'static str>,
    /// plain = only the most common syntax (used to build fault corpora deterministically)
    pub plain: bool,
}

/// Returns (as written, octet as a reader sees it after unescaping — case as written).
fn render_char_in_name(rng: &mut Rng, b: u8, plain: bool, features: &mut BTreeSet<&'static str>) -> (String, u8) {
    let special = matches!(b, b'"' | b'\\' | b';' | b'(' | b')') || b <= 32 || b >= 127;
    if special {
        if b.is_ascii_graphic() && rng.bool() {
            features.insert("escape:\\X");
            (format!("\\{}", b as char), b)
        } else {
            features.insert("escape:\\DDD");
            (format!("\\{b:03}"), b)
        }
    } else if !plain && rng.chance(1, 25) {
        features.insert("escape:\\DDD");
        (format!("\\{b:03}"), b)
    } else if !plain && !b.is_ascii_digit() && rng.chance(1, 30) {
        features.insert("escape:\\X");
        (format!("\\{}", b as char), b)
    } else if !plain && b.is_ascii_lowercase() && rng.chance(1, 6) {
        features.insert("mixed-case");
        ((b.to_ascii_uppercase() as char).to_string(), b.to_ascii_uppercase())
    } else {
        ((b as char).to_string(), b)
    }
}

impl<'a> Renderer<'a> {
    pub fn new(rng: &'a mut Rng, plain: bool) -> Self {
        Renderer {
            rng,
            out: String::new(),
            origin: None,
            prev_owner: None,
            prev_ttl: None,
            features: BTreeSet::new(),
            plain,
        }
    }

    /// (as written, as read) for a sequence of labels joined by dots.
    fn labels_text(&mut self, labels: &[Label]) -> (String, String) {
        let mut w = String::new();
        let mut r = String::new();
        for (i, l) in labels.iter().enumerate() {
            if i > 0 {
                w.push('.');
                r.push('.');
            }
            for &b in l.octets().iter() {
                let (ws, rb) = render_char_in_name(self.rng, b, self.plain, &mut self.features);
                w.push_str(&ws);
                r.push(rb as char);
            }
        }
        (w, r)
    }

    /// Token for a name in owner or RDATA position (not wildcard-prefixed): (written, as read).
    fn name_token2(&mut self, name: &DomainName) -> (String, String) {
        let n = name.labels.len();
        let mut options: Vec<u8> = vec![0]; // 0 = absolute
        if let Some(o) = &self.origin {
            if same_name(name, o) {
                options.push(1); // @
            } else if is_suffix(name, o) {
                options.push(2); // relative
                options.push(2);
            }
        }
        let choice = *self.rng.pick(&options);
        for attempt in 0..4 {
            let (w, r) = match if attempt < 3 { choice } else { 0 } {
                1 => {
                    self.features.insert("name:@");
                    ("@".to_string(), "@".to_string())
                }
                2 => {
                    let o = self.origin.clone().unwrap();
                    let rel = &name.labels[..n - o.labels.len()];
                    self.features.insert("name:relative");
                    self.labels_text(rel)
                }
                _ => {
                    if name.is_root() {
                        (".".to_string(), ".".to_string())
                    } else {
                        self.features.insert("name:absolute");
                        let (w, r) = self.labels_text(&name.labels[..n - 1]);
                        (format!("{w}."), format!("{r}."))
                    }
                }
            };
            // a token that a reader could take for something else (judged on what the reader sees
            // after unescaping): try again, then fall back
            let is_at = choice == 1 && attempt < 3;
            let ambiguous = !is_at && (looks_like_keyword(&r) || r == "*" || r.starts_with("*."));
            if !ambiguous {
                return (w, r);
            }
        }
        // deterministic fallback: absolute, lower case; (a name that still reads as a keyword
        // cannot be: an absolute token ends with a dot)
        let mut w = String::new();
        let mut r = String::new();
        for l in &name.labels[..n - 1] {
            for &b in l.octets().iter() {
                if b.is_ascii_lowercase() || b.is_ascii_digit() {
                    w.push(b as char);
                } else {
                    w.push_str(&format!("\\{b:03}"));
                }
                r.push(b as char);
            }
            w.push('.');
            r.push('.');
        }
        if w.is_empty() {
            w.push('.');
            r.push('.');
        }
        (w, r)
    }

    fn name_token(&mut self, name: &DomainName) -> String {
        // in RDATA position a leading `*` label is an ordinary label
        self.name_token2(name).0
    }

    /// (written, as read)
    fn owner_token(&mut self, owner: &DomainName, wildcard: bool) -> (String, String) {
        if !wildcard {
            return self.name_token2(owner);
        }
        self.features.insert("owner:wildcard");
        // `*` alone = wildcard at the origin
        if let Some(o) = &self.origin {
            if same_name(owner, o) && self.rng.bool() {
                self.features.insert("owner:bare-star");
                return ("*".to_string(), "*".to_string());
            }
        }
        if owner.is_root() {
            return ("*.".to_string(), "*.".to_string());
        }
        let (w, r) = self.name_token2(owner);
        if r == "@" {
            // `*.@` is not a thing; write the wildcard explicitly
            let n = owner.labels.len();
            let (w, r) = self.labels_text(&owner.labels[..n - 1]);
            return (format!("*.{w}."), format!("*.{r}."));
        }
        (format!("*.{w}"), format!("*.{r}"))
    }

    fn octets_token(&mut self, octets: &[u8]) -> String {
        let quoted = octets.is_empty() || self.plain || self.rng.chance(2, 3);
        let mut s = String::new();
        if quoted {
            self.features.insert("rdata:quoted");
            s.push('"');
            for &b in octets {
                if b == b'"' || b == b'\\' {
                    if self.rng.bool() {
                        s.push('\\');
                        s.push(b as char);
                    } else {
                        s.push_str(&format!("\\{b:03}"));
                    }
                } else if b >= 127 || (b < 32 && b != b'\n' && b != b'\t') || b == b'\r' {
                    s.push_str(&format!("\\{b:03}"));
                } else if b == b'\n' {
                    if !self.plain && self.rng.bool() {
                        self.features.insert("rdata:newline-inside-quotes");
                        s.push('\n');
                    } else {
                        s.push_str("\\010");
                    }
                } else if !self.plain && self.rng.chance(1, 20) {
                    s.push_str(&format!("\\{b:03}"));
                } else {
                    s.push(b as char);
                }
            }
            s.push('"');
        } else {
            self.features.insert("rdata:unquoted");
            for &b in octets {
                s.push_str(&render_char_in_name(self.rng, b, true, &mut self.features).0);
            }
        }
        s
    }

    fn rdata_tokens(&mut self, d: &RecordTypeWithData) -> (String, Vec<String>) {
        use RecordTypeWithData as D;
        let t = d.rtype().to_string();
        let toks = match d {
            D::A { address } => vec![address.to_string()],
            D::AAAA { address } => {
                let s = address.to_string();
                let v = if !self.plain && self.rng.chance(1, 3) {
                    self.features.insert("aaaa:upper-case");
                    s.to_ascii_uppercase()
                } else if !self.plain && self.rng.chance(1, 3) && address.to_ipv4_mapped().is_none() {
                    self.features.insert("aaaa:full-form");
                    let seg = address.segments();
                    seg.iter().map(|x| format!("{x:04x}")).collect::<Vec<_>>().join(":")
                } else {
                    s
                };
                vec![v]
            }
            D::NS { nsdname } => vec![self.name_token(nsdname)],
            D::MD { madname } | D::MF { madname } | D::MB { madname } => vec![self.name_token(madname)],
            D::CNAME { cname } => vec![self.name_token(cname)],
            D::MG { mdmname } => vec![self.name_token(mdmname)],
            D::MR { newname } => vec![self.name_token(newname)],
            D::PTR { ptrdname } => vec![self.name_token(ptrdname)],
            D::SOA {
                mname,
                rname,
                serial,
                refresh,
                retry,
                expire,
                minimum,
            } => vec![
                self.name_token(mname),
                self.name_token(rname),
                serial.to_string(),
                refresh.to_string(),
                retry.to_string(),
                expire.to_string(),
                minimum.to_string(),
            ],
            D::MINFO { rmailbx, emailbx } => vec![self.name_token(rmailbx), self.name_token(emailbx)],
            D::MX {
                preference,
                exchange,
            } => vec![preference.to_string(), self.name_token(exchange)],
            D::SRV {
                priority,
                weight,
                port,
                target,
            } => vec![priority.to_string(), weight.to_string(), port.to_string(), self.name_token(target)],
            D::NULL { octets } | D::WKS { octets } | D::HINFO { octets } | D::TXT { octets } | D::Unknown { octets, .. } => {
                vec![self.octets_token(octets)]
            }
        };
        (t, toks)
    }

    fn sep(&mut self) -> String {
        if self.plain {
            return " ".to_string();
        }
        match self.rng.below(8) {
            0 => {
                self.features.insert("layout:tabs");
                "\t".to_string()
            }
            1 => {
                self.features.insert("layout:multiple-spaces");
                "   ".to_string()
            }
            2 => " \t ".to_string(),
            _ => " ".to_string(),
        }
    }

    fn eol(&mut self) -> String {
        let mut s = String::new();
        if !self.plain && self.rng.chance(1, 6) {
            self.features.insert("layout:comment");
            if self.rng.bool() {
                s.push(' ');
            }
            if self.rng.chance(1, 2) {
                s.push(';');
                s.push_str(&comment_text(&mut self.rng));
            } else {
                s.push_str(self.rng.pick(&["; comment", ";", "; \"quoted ( text ; IN A 1.2.3.4", ";\t$ORIGIN nowhere.", "; unicode \u{00e9}\u{4e2d}"]));
            }
        }
        if !self.plain && self.rng.chance(1, 10) {
            self.features.insert("layout:crlf");
            s.push('\r');
        }
        s.push('\n');
        s
    }

    /// Write the tokens of one entry, possibly wrapped in parentheses over several lines.
    fn emit(&mut self, tokens: Vec<String>, leading_ws: bool) {
        let mut line = String::new();
        if leading_ws {
            line.push_str(if self.rng.bool() { "    " } else { "\t" });
        }
        // where the parenthesis opens (never before the first token, so that the owner stays first)
        let paren_at = if !self.plain && tokens.len() >= 2 && self.rng.chance(1, 5) {
            Some(self.rng.range(1, tokens.len() - 1))
        } else {
            None
        };
        let mut in_paren = false;
        for (i, t) in tokens.iter().enumerate() {
            if i > 0 {
                line.push_str(&self.sep());
            }
            if paren_at == Some(i) {
                self.features.insert("layout:parentheses");
                line.push('(');
                line.push_str(&self.sep());
                in_paren = true;
            }
            line.push_str(t);
            if in_paren && i + 1 < tokens.len() && self.rng.chance(1, 2) {
                // line break inside the parentheses, optionally after a comment
                if self.rng.chance(1, 3) {
                    self.features.insert("layout:comment-inside-parentheses");
                    match self.rng.range(0, 3) {
                        0 => line.push_str(" ; inside )"),
                        1 => {
                            // no blank between the token and the comment character: the comment ends the token
                            self.features.insert("layout:comment-directly-after-token-inside-parentheses");
                            line.push_str(";tight ( \" 7 )");
                        }
                        2 => {
                            self.features.insert("layout:comment-directly-after-token-inside-parentheses");
                            line.push(';');
                        }
                        _ => {
                            line.push_str(" ;");
                            line.push_str(&comment_text(&mut self.rng));
                        }
                    }
                }
                line.push('\n');
                if self.rng.bool() {
                    line.push_str("      ");
                }
            }
        }
        if in_paren {
            line.push_str(&self.sep());
            line.push(')');
        }
        self.out.push_str(&line);
        let e = self.eol();
        self.out.push_str(&e);
        if !self.plain && self.rng.chance(1, 8) {
            self.features.insert("layout:blank-lines");
            self.out.push_str(self.rng.pick(&["\n", "   \n", "; only a comment\n", "\t\n\n"]));
        }
    }

    pub fn origin(&mut self, name: &DomainName) {
        let t = self.name_token(name);
        // `$ORIGIN @` would be legal but pointless; relative $ORIGIN arguments are resolved against the old origin
        self.features.insert("$ORIGIN");
        self.emit(vec!["$ORIGIN".to_string(), t], false);
        self.origin = Some(name.clone());
    }

    pub fn current_origin(&self) -> Option<&DomainName> {
        self.origin.as_ref()
    }

    /// Render one record.  `ttl_written`: for the SOA the TTL on the line may differ from the effective one.
    pub fn record(&mut self, owner: &DomainName, wildcard: bool, ttl: u32, data: &RecordTypeWithData, is_soa: bool, soa_written_ttl: Option<Option<u32>>) {
        let mut tokens: Vec<String> = Vec::new();
        // owner
        let can_omit_owner = !self.plain && self.prev_owner.as_ref() == Some(&(owner.clone(), wildcard));
        let omit_owner = can_omit_owner && self.rng.chance(1, 2);
        let mut owner_tok = None;
        if omit_owner {
            self.features.insert("owner:omitted");
        } else {
            owner_tok = Some(self.owner_token(owner, wildcard));
        }
        // ttl
        let (ttl_tok, effective_prev): (Option<u32>, u32) = if is_soa {
            match soa_written_ttl.unwrap_or(None) {
                Some(w) => (Some(w), ttl),
                None => (None, ttl),
            }
        } else {
            let can_omit_ttl = !self.plain && self.prev_ttl == Some(ttl);
            if can_omit_ttl && self.rng.chance(1, 2) {
                self.features.insert("ttl:omitted");
                (None, ttl)
            } else {
                (Some(ttl), ttl)
            }
        };
        // an owner token that reads as all digits needs an explicit TTL next to it to be read as an owner
        let mut ttl_tok = ttl_tok;
        if let Some((_, read)) = &owner_tok {
            if read.chars().all(|c| c.is_ascii_digit()) && ttl_tok.is_none() {
                ttl_tok = Some(ttl);
            }
        }
        let class_present = self.plain || self.rng.chance(2, 3);
        if !class_present {
            self.features.insert("class:omitted");
        }
        if let Some((w, _)) = owner_tok {
            tokens.push(w);
        }
        match (ttl_tok, class_present) {
            (Some(t), true) => {
                if !self.plain && self.rng.bool() {
                    self.features.insert("order:IN-TTL");
                    tokens.push("IN".into());
                    tokens.push(t.to_string());
                } else {
                    self.features.insert("order:TTL-IN");
                    tokens.push(t.to_string());
                    tokens.push("IN".into());
                }
            }
            (Some(t), false) => tokens.push(t.to_string()),
            (None, true) => tokens.push("IN".into()),
            (None, false) => {}
        }
        let (tname, rtoks) = self.rdata_tokens(data);
        tokens.push(tname);
        tokens.extend(rtoks);
        let leading = omit_owner && self.rng.bool();
        self.emit(tokens, leading);
        self.prev_owner = Some((owner.clone(), wildcard));
        self.prev_ttl = Some(effective_prev);
    }
}

/// Render an abstract file.  Returns (text, features used).
pub fn render_afile(rng: &mut Rng, f: &AFile, plain: bool) -> (String, BTreeSet<&'static str>) {
    // order: SOA usually first; records shuffled but grouped runs of equal owner kept likely
    let mut order: Vec<usize> = (0..f.recs.len()).collect();
    if !plain {
        rng.shuffle(&mut order);
        // sort by owner with probability 1/2 so that owner omission gets exercised
        if rng.bool() {
            order.sort_by(|a, b| (&f.recs[*a].owner, f.recs[*a].wildcard).cmp(&(&f.recs[*b].owner, f.recs[*b].wildcard)));
        }
    }
    let soa_pos = if f.soa.is_some() {
        if plain || rng.chance(3, 4) {
            0
        } else {
            rng.below(order.len() + 1)
        }
    } else {
        usize::MAX
    };
    let apex = f.soa.as_ref().map(|s| s.0.clone());
    let mut r = Renderer::new(rng, plain);
    // initial origin
    if let Some(a) = &apex {
        if plain || r.rng.chance(3, 4) {
            r.origin(a);
        }
    } else if !plain && r.rng.chance(1, 3) {
        let o = gen_name_below(r.rng, &DomainName::root_domain(), 1, LabelStyle::Plain, &[], true);
        r.origin(&o);
    }
    let n = order.len();
    for pos in 0..=n {
        if pos == soa_pos {
            let (apex, soa, written) = f.soa.as_ref().unwrap();
            // after the SOA the parser's "previous TTL" is the SOA minimum whatever was written
            r.record(apex, false, soa.minimum, &soa.rdata(), true, Some(*written));
            if let Some(w) = written {
                if *w != soa.minimum {
                    // do not let the next record inherit across this line (DESIGN: ambiguous reading)
                    r.prev_ttl = None;
                }
            } else if pos == 0 {
                // SOA without TTL as the first record: nothing was "stated" yet
                r.prev_ttl = None;
            }
        }
        if pos == n {
            break;
        }
        let rec = &f.recs[order[pos]];
        // change the origin now and then
        if !plain && r.rng.chance(1, 7) {
            let o = match r.rng.below(3) {
                0 => rec.owner.clone(),
                1 => {
                    let k = r.rng.range(1, rec.owner.labels.len());
                    crate::refmodel::zone::suffix_of(&rec.owner, k)
                }
                _ => gen_name_below(r.rng, &DomainName::root_domain(), 1, LabelStyle::Plain, &[], true),
            };
            r.origin(&o);
        }
        r.record(&rec.owner, rec.wildcard, rec.ttl, &rec.data, false, None);
    }
    (std::mem::take(&mut r.out), std::mem::take(&mut r.features))
}

// ---------------------------------------------------------------------------
// hosts(5)

#[derive(Clone, Debug, Default, PartialEq, Eq)]
pub struct HostsModel {
    pub v4: BTreeMap<DomainName, Ipv4Addr>,
    pub v6: BTreeMap<DomainName, Ipv6Addr>,
}

impl HostsModel {
    pub fn merge(&mut self, other: &HostsModel) {
        for (k, v) in &other.v4 {
            self.v4.insert(k.clone(), *v);
        }
        for (k, v) in &other.v6 {
            self.v6.insert(k.clone(), *v);
        }
    }
}

pub fn gen_host_name(rng: &mut Rng, pool: &[String]) -> String {
    if !pool.is_empty() && rng.chance(1, 2) {
        return rng.pick(pool).clone();
    }
    let n = rng.range(1, 4);
    let mut s = String::new();
    for i in 0..n {
        if i > 0 {
            s.push('.');
        }
        let len = rng.range(1, 6);
        for j in 0..len {
            let c = match rng.below(14) {
                0 => b'0' + rng.below(10) as u8,
                1 if j > 0 => b'-',
                2 => b'A' + rng.below(26) as u8,
                3 => b'_',
                _ => b'a' + rng.below(5) as u8,
            };
            s.push(c as char);
        }
    }
    s
}

pub fn v6_text(rng: &mut Rng, a: Ipv6Addr, features: &mut BTreeSet<&'static str>) -> String {
    match rng.below(4) {
        0 => {
            features.insert("v6:upper-case");
            a.to_string().to_ascii_uppercase()
        }
        1 if a.to_ipv4_mapped().is_none() => {
            features.insert("v6:full-form");
            a.segments().iter().map(|x| format!("{x:04x}")).collect::<Vec<_>>().join(":")
        }
        2 if a.to_ipv4_mapped().is_none() => {
            features.insert("v6:no-leading-zero-full");
            a.segments().iter().map(|x| format!("{x:x}")).collect::<Vec<_>>().join(":")
        }
        _ => {
            features.insert("v6:canonical");
            a.to_string()
        }
    }
}

/// What may follow a comment character: anything but a line break (every character that means something elsewhere in
/// the syntax is in the alphabet).
pub fn comment_text(rng: &mut Rng) -> String {
    const CHUNKS: [&str; 28] = [
        "%", "100%", "fe80::1%lo0", "#", ";", "\"", "'", "\\", "1.2.3.4", "::1", "name.example", " ", "\t", "\u{00e9}", "\u{4e2d}", "(", ")", "$ORIGIN", "@", "*", "IN",
        "A", "\\032", "a", "z", "0", ".", "..",
    ];
    let n = rng.below(9);
    let mut s = String::new();
    for _ in 0..n {
        s.push_str(rng.pick(&CHUNKS));
    }
    s
}

/// Generate a hosts file and the mapping it denotes.
pub fn gen_hosts(rng: &mut Rng, tag: u8, max_lines: usize) -> (String, HostsModel, BTreeSet<&'static str>) {
    let mut model = HostsModel::default();
    let mut out = String::new();
    let mut features = BTreeSet::new();
    let pool: Vec<String> = (0..4).map(|_| gen_host_name(rng, &[])).collect();
    let ws = |rng: &mut Rng| -> String {
        match rng.below(5) {
            0 => "\t".into(),
            1 => "  ".into(),
            2 => " \t".into(),
            _ => " ".into(),
        }
    };
    let n = rng.range(0, max_lines);
    for _ in 0..n {
        match rng.below(14) {
            0 => {
                features.insert("line:blank");
                out.push_str(rng.pick(&["\n", "   \n", "\t\n"]));
            }
            1 => {
                features.insert("line:comment");
                out.push_str(rng.pick(&["# comment\n", "#\n", "   # indented 1.2.3.4 name\n", "#1.2.3.4 commented.out\n"]));
            }
            2 => {
                features.insert("line:address-only");
                out.push_str(&format!("10.{tag}.0.{}\n", rng.below(256)));
            }
            3 => {
                features.insert("line:interface-suffix");
                out.push_str(&format!("fe80::{:x}%eth0 {}\n", rng.below(65536), gen_host_name(rng, &pool)));
            }
            _ => {
                let mut line = String::new();
                if rng.chance(1, 8) {
                    features.insert("leading-whitespace");
                    line.push_str(&ws(rng));
                }
                let v6 = rng.chance(1, 3);
                let (a4, a6) = (
                    Ipv4Addr::new(10, tag, rng.below(4) as u8, rng.below(256) as u8),
                    match rng.below(4) {
                        0 => Ipv6Addr::new(0xfd00, tag.into(), 0, 0, 0, 0, 0, rng.below(65536) as u16),
                        1 => Ipv6Addr::LOCALHOST,
                        2 => Ipv4Addr::new(192, 0, 2, rng.below(256) as u8).to_ipv6_mapped(),
                        _ => Ipv6Addr::new(0x2001, 0xdb8, tag.into(), rng.below(65536) as u16, 0, 0, rng.below(4) as u16, rng.below(65536) as u16),
                    },
                );
                if v6 {
                    line.push_str(&v6_text(rng, a6, &mut features));
                } else {
                    line.push_str(&a4.to_string());
                }
                let k = rng.range(1, 5);
                let mut names = Vec::new();
                for _ in 0..k {
                    line.push_str(&ws(rng));
                    let mut name = gen_host_name(rng, &pool);
                    if rng.chance(1, 8) {
                        features.insert("name:trailing-dot");
                        name.push('.');
                    }
                    line.push_str(&name);
                    names.push(name);
                }
                match rng.below(10) {
                    0 => {
                        features.insert("comment:directly-after-name");
                        line.push_str("#tight comment");
                    }
                    1 => {
                        features.insert("comment:after-whitespace");
                        line.push_str(" # a comment with names.in.it 9.9.9.9");
                    }
                    3 | 4 => {
                        features.insert("comment:arbitrary-text");
                        if rng.bool() {
                            line.push_str(&ws(rng));
                        }
                        line.push('#');
                        line.push_str(&comment_text(rng));
                    }
                    2 => {
                        features.insert("trailing-whitespace");
                        line.push_str(" \t");
                    }
                    _ => {}
                }
                for name in names {
                    let abs = if name.ends_with('.') { name.clone() } else { format!("{name}.") };
                    let d = DomainName::from_dotted_string(&abs).expect("generated host name is valid");
                    if v6 {
                        model.v6.insert(d, a6);
                    } else {
                        model.v4.insert(d, a4);
                    }
                }
                if rng.chance(1, 10) {
                    features.insert("crlf");
                    line.push('\r');
                }
                line.push('\n');
                out.push_str(&line);
            }
        }
    }
    // a comment directly after the address: the line maps nothing
    if rng.chance(1, 6) {
        features.insert("comment:directly-after-address");
        out.push_str(&format!("10.{tag}.9.9#nothing mapped here\n"));
    }
    if rng.chance(1, 6) && out.ends_with('\n') {
        features.insert("no-final-newline");
        out.pop();
    }
    (out, model, features)
}

//! M-CRASH: parent/worker process wrapper.
//!
//! The engine binary, started normally, becomes the *parent*: it re-executes
//! itself with `--worker` and watches the child.  Panics are caught per case
//! inside the worker; what only an outside observer can see — stack overflow
//! (SIGSEGV), abort (SIGABRT, OOM abort) and hangs — is seen here.  On such a
//! death the parent re-runs the worker with `--trace`, in which every worker
//! thread writes the case it is about to execute to its own file before
//! executing it, so the culprit survives the process and becomes the replay.

use serde_json::{json, Value};
use std::fs::File;
use std::io::{Read, Seek, SeekFrom, Write};
use std::os::unix::process::ExitStatusExt;
use std::process::{Command, Stdio};
use std::sync::atomic::{AtomicU64, Ordering};
use std::sync::Arc;
use std::time::{Duration, Instant};

use crate::run::{Args, VERIF_DIR};

pub const EXIT_HANG: i32 = 3;

fn trace_dir(prop: &str) -> String {
    format!("{VERIF_DIR}/replays/{prop}/.trace")
}

/// Per-thread case tracer used inside the worker.
pub struct Tracer {
    file: Option<File>,
    slot: Arc<AtomicU64>,
    epoch: Instant,
}

/// Shared by the worker's threads and its hang monitor.
pub struct TraceHub {
    pub slots: Vec<Arc<AtomicU64>>,
    epoch: Instant,
    trace: bool,
    prop: String,
}

impl TraceHub {
    pub fn new(args: &Args, threads: usize) -> Arc<TraceHub> {
        if args.trace {
            let _ = std::fs::remove_dir_all(trace_dir(&args.prop));
            let _ = std::fs::create_dir_all(trace_dir(&args.prop));
        }
        Arc::new(TraceHub {
            slots: (0..threads).map(|_| Arc::new(AtomicU64::new(0))).collect(),
            epoch: Instant::now(),
            trace: args.trace,
            prop: args.prop.clone(),
        })
    }

    pub fn tracer(&self, thread: usize) -> Tracer {
        let file = if self.trace {
            File::create(format!("{}/t{thread}", trace_dir(&self.prop))).ok()
        } else {
            None
        };
        Tracer {
            file,
            slot: self.slots[thread].clone(),
            epoch: self.epoch,
        }
    }

    /// Start the hang monitor: if any thread stays inside one case for longer than
    /// `limit` wall time, the process exits with EXIT_HANG (the parent then
    /// re-runs in trace mode to name the case).
    pub fn start_hang_monitor(self: &Arc<Self>, limit: Duration) {
        let hub = self.clone();
        std::thread::spawn(move || loop {
            std::thread::sleep(Duration::from_millis(500));
            let now = hub.epoch.elapsed().as_millis() as u64 + 1;
            for (i, s) in hub.slots.iter().enumerate() {
                let started = s.load(Ordering::Relaxed);
                if started != 0 && now.saturating_sub(started) > limit.as_millis() as u64 {
                    eprintln!("worker: thread {i} has been inside one case for more than {limit:?}");
                    std::process::exit(EXIT_HANG);
                }
            }
        });
    }
}

impl Tracer {
    /// Call before executing a case.  `desc` renders the case (only evaluated in trace mode).
    #[inline]
    pub fn begin(&mut self, desc: impl FnOnce() -> Value) {
        self.slot
            .store(self.epoch.elapsed().as_millis() as u64 + 1, Ordering::Relaxed);
        if let Some(f) = &mut self.file {
            let body = serde_json::to_vec(&desc()).unwrap_or_default();
            let _ = f.seek(SeekFrom::Start(0));
            let _ = f.set_len(0);
            let _ = f.write_all(&body);
        }
    }
    #[inline]
    pub fn end(&mut self) {
        self.slot.store(0, Ordering::Relaxed);
        if let Some(f) = &mut self.file {
            let _ = f.set_len(0);
        }
    }
}

#[derive(Debug)]
enum Death {
    Code(i32),
    Signal(i32),
    Watchdog,
}

fn run_child(args: &Args, trace: bool, watchdog: Duration) -> Death {
    let exe = std::env::current_exe().expect("current_exe");
    let mut cmd = Command::new(exe);
    cmd.args(&args.raw).arg("--worker");
    if trace {
        cmd.arg("--trace");
    }
    cmd.stdin(Stdio::null());
    let mut child = cmd.spawn().expect("spawn worker");
    let start = Instant::now();
    loop {
        match child.try_wait() {
            Ok(Some(status)) => {
                if let Some(sig) = status.signal() {
                    return Death::Signal(sig);
                }
                return Death::Code(status.code().unwrap_or(-1));
            }
            Ok(None) => {
                if start.elapsed() > watchdog {
                    let _ = child.kill();
                    let _ = child.wait();
                    return Death::Watchdog;
                }
                std::thread::sleep(Duration::from_millis(50));
            }
            Err(_) => return Death::Code(-1),
        }
    }
}

fn read_traces(prop: &str) -> Vec<Value> {
    let mut out = Vec::new();
    if let Ok(rd) = std::fs::read_dir(trace_dir(prop)) {
        for e in rd.flatten() {
            let mut s = String::new();
            if File::open(e.path())
                .and_then(|mut f| f.read_to_string(&mut s))
                .is_ok()
                && !s.is_empty()
            {
                if let Ok(v) = serde_json::from_str::<Value>(&s) {
                    out.push(v);
                }
            }
        }
    }
    out
}

/// Parent side.  `crash_is_violation`: whether abort / stack overflow / hang of the
/// code under test refutes the property served (else it is reported inconclusive).
pub fn supervise(args: &Args, level: &str, watchdog: Duration, crash_is_violation: bool) -> ! {
    let death = run_child(args, false, watchdog);
    match death {
        Death::Code(c) if c == 0 || c == 1 || c == 2 => std::process::exit(c),
        Death::Watchdog if !crash_is_violation => {
            println!(
                "INCONCLUSIVE property={} wall-clock watchdog ({watchdog:?}) fired",
                args.prop
            );
            std::process::exit(2);
        }
        _ => {}
    }
    eprintln!("worker died: {death:?}; re-running in trace mode to identify the case");
    let death2 = run_child(args, true, watchdog);
    let traces = read_traces(&args.prop);
    let _ = std::fs::remove_dir_all(trace_dir(&args.prop));
    let reproduced = !matches!(death2, Death::Code(0) | Death::Code(1) | Death::Code(2));
    if !reproduced || traces.is_empty() || !crash_is_violation {
        if let Death::Code(c @ (0 | 1 | 2)) = death2 {
            if !crash_is_violation {
                std::process::exit(c);
            }
        }
        println!(
            "INCONCLUSIVE property={} worker died ({death:?}) and the death was {} in trace mode ({death2:?}); in-flight cases recorded: {}",
            args.prop,
            if reproduced { "reproduced" } else { "not reproduced" },
            traces.len()
        );
        std::process::exit(2);
    }
    let kind = match death2 {
        Death::Signal(11) | Death::Signal(7) => "stack-overflow-or-segv",
        Death::Signal(6) => "abort",
        Death::Signal(_) => "killed-by-signal",
        Death::Code(EXIT_HANG) | Death::Watchdog => "hang",
        Death::Code(_) => "abnormal-exit",
    };
    let dir = format!("{VERIF_DIR}/replays/{}", args.prop);
    let _ = std::fs::create_dir_all(&dir);
    let fname = format!("{dir}/crash-{kind}-seed{}.json", args.seed as i64);
    let body = json!({
        "property": args.prop,
        "signature": format!("process-death:{kind}"),
        "what": format!("worker process died ({death2:?}) while executing one of the in-flight cases"),
        "seed": args.seed as i64,
        "tier": args.tier.name(),
        "in_flight_cases": traces,
    });
    let _ = std::fs::write(&fname, serde_json::to_string_pretty(&body).unwrap());
    // minimal evidence (the worker never got to write its own)
    let evidence = json!({
        "property_id": args.prop,
        "tier": args.tier.name(),
        "seed": args.seed as i64,
        "level": level,
        "coverage": {
            "evaluations": 1,
            "distinct_nontrivial": 2,
            "rule": "worker process died; counts unavailable — see replay file for the in-flight cases",
            "samples": body["in_flight_cases"].clone(),
        },
        "wall_s": 0.0,
        "violations": 1,
    });
    let _ = std::fs::create_dir_all(format!("{VERIF_DIR}/evidence"));
    let _ = std::fs::write(
        format!("{VERIF_DIR}/evidence/{}.json", args.prop),
        serde_json::to_string_pretty(&evidence).unwrap(),
    );
    println!("VIOLATION property={} replay={fname}", args.prop);
    println!("  signature: process-death:{kind}");
    std::process::exit(1);
}

//! Helpers over the repository's types, and the M-NAME monitor.

use bytes::Bytes;
use dns_types::protocol::types::*;
use serde_json::{json, Value};
use std::net::{Ipv4Addr, Ipv6Addr};

pub fn dn(s: &str) -> DomainName {
    DomainName::from_dotted_string(s).unwrap_or_else(|| panic!("harness: bad name {s:?}"))
}

pub fn label(octets: &[u8]) -> Label {
    Label::try_from(octets).expect("harness: label too long")
}

/// Build a name from non-empty labels (root label appended).  None if over the limits.
pub fn name_from(labels: &[Vec<u8>]) -> Option<DomainName> {
    let mut ls = Vec::with_capacity(labels.len() + 1);
    for l in labels {
        ls.push(Label::try_from(&l[..]).ok()?);
    }
    ls.push(Label::new());
    DomainName::from_labels(ls)
}

pub fn rr(name: &DomainName, data: RecordTypeWithData, ttl: u32) -> ResourceRecord {
    ResourceRecord {
        name: name.clone(),
        rtype_with_data: data,
        rclass: RecordClass::IN,
        ttl,
    }
}

pub fn a(addr: Ipv4Addr) -> RecordTypeWithData {
    RecordTypeWithData::A { address: addr }
}
pub fn aaaa(addr: Ipv6Addr) -> RecordTypeWithData {
    RecordTypeWithData::AAAA { address: addr }
}
pub fn cname(target: &DomainName) -> RecordTypeWithData {
    RecordTypeWithData::CNAME {
        cname: target.clone(),
    }
}
pub fn ns(host: &DomainName) -> RecordTypeWithData {
    RecordTypeWithData::NS {
        nsdname: host.clone(),
    }
}
pub fn txt(octets: &[u8]) -> RecordTypeWithData {
    RecordTypeWithData::TXT {
        octets: Bytes::copy_from_slice(octets),
    }
}
pub fn mx(preference: u16, exchange: &DomainName) -> RecordTypeWithData {
    RecordTypeWithData::MX {
        preference,
        exchange: exchange.clone(),
    }
}

pub fn qt(t: RecordType) -> QueryType {
    QueryType::Record(t)
}

pub fn question(name: &DomainName, qtype: QueryType) -> Question {
    Question {
        name: name.clone(),
        qtype,
        qclass: QueryClass::Record(RecordClass::IN),
    }
}

/// M-NAME: well-formedness of a name that came *out of* the code under test.
/// Returns a description of the first problem, if any.
pub fn name_problem(n: &DomainName) -> Option<String> {
    if n.labels.is_empty() {
        return Some("no labels".into());
    }
    let last = n.labels.len() - 1;
    let mut total = n.labels.len();
    for (i, l) in n.labels.iter().enumerate() {
        let len = l.octets().len();
        if len > 63 {
            return Some(format!("label {i} has {len} octets"));
        }
        if i == last && len != 0 {
            return Some("last label not empty (name not absolute)".into());
        }
        if i != last && len == 0 {
            return Some(format!("empty label at position {i}"));
        }
        if l.octets().iter().any(u8::is_ascii_uppercase) {
            return Some(format!("label {i} contains an upper-case ASCII octet"));
        }
        total += len;
    }
    if total != n.len {
        return Some(format!("recorded len {} but encoded length {total}", n.len));
    }
    if total > 255 {
        return Some(format!("encoded length {total} > 255"));
    }
    None
}

/// All names occurring in a record (owner and RDATA).
pub fn rr_names(rr: &ResourceRecord) -> Vec<&DomainName> {
    let mut v = vec![&rr.name];
    rdata_names(&rr.rtype_with_data, &mut v);
    v
}

pub fn rdata_names<'a>(d: &'a RecordTypeWithData, v: &mut Vec<&'a DomainName>) {
    match d {
        RecordTypeWithData::NS { nsdname } => v.push(nsdname),
        RecordTypeWithData::MD { madname }
        | RecordTypeWithData::MF { madname }
        | RecordTypeWithData::MB { madname } => v.push(madname),
        RecordTypeWithData::CNAME { cname } => v.push(cname),
        RecordTypeWithData::SOA { mname, rname, .. } => {
            v.push(mname);
            v.push(rname);
        }
        RecordTypeWithData::MG { mdmname } => v.push(mdmname),
        RecordTypeWithData::MR { newname } => v.push(newname),
        RecordTypeWithData::PTR { ptrdname } => v.push(ptrdname),
        RecordTypeWithData::MINFO { rmailbx, emailbx } => {
            v.push(rmailbx);
            v.push(emailbx);
        }
        RecordTypeWithData::MX { exchange, .. } => v.push(exchange),
        RecordTypeWithData::SRV { target, .. } => v.push(target),
        _ => {}
    }
}

pub fn message_name_problem(m: &Message) -> Option<String> {
    for q in &m.questions {
        if let Some(p) = name_problem(&q.name) {
            return Some(format!("question name {:?}: {p}", q.name));
        }
    }
    for rr in m.answers.iter().chain(&m.authority).chain(&m.additional) {
        for n in rr_names(rr) {
            if let Some(p) = name_problem(n) {
                return Some(format!("name {n:?} in record: {p}"));
            }
        }
    }
    None
}

/// Printable name (escapes unusual octets).
pub fn show_name(n: &DomainName) -> String {
    let mut s = String::new();
    if n.labels.len() == 1 {
        return ".".into();
    }
    for l in &n.labels {
        if l.is_empty() {
            break;
        }
        for &b in l.octets().iter() {
            if b.is_ascii_graphic() && b != b'.' && b != b'\\' {
                s.push(b as char);
            } else {
                s.push_str(&format!("\\{b:03}"));
            }
        }
        s.push('.');
    }
    s
}

pub fn show_rdata(d: &RecordTypeWithData) -> String {
    match d {
        RecordTypeWithData::A { address } => format!("A {address}"),
        RecordTypeWithData::AAAA { address } => format!("AAAA {address}"),
        RecordTypeWithData::NS { nsdname } => format!("NS {}", show_name(nsdname)),
        RecordTypeWithData::CNAME { cname } => format!("CNAME {}", show_name(cname)),
        RecordTypeWithData::TXT { octets } => format!("TXT {}", crate::run::hex(octets)),
        RecordTypeWithData::MX {
            preference,
            exchange,
        } => format!("MX {preference} {}", show_name(exchange)),
        RecordTypeWithData::SOA {
            mname,
            rname,
            serial,
            refresh,
            retry,
            expire,
            minimum,
        } => format!(
            "SOA {} {} {serial} {refresh} {retry} {expire} {minimum}",
            show_name(mname),
            show_name(rname)
        ),
        other => format!("{other:?}"),
    }
}

pub fn show_rr(rr: &ResourceRecord) -> String {
    format!(
        "{} {} {} {}",
        show_name(&rr.name),
        rr.ttl,
        rr.rclass,
        show_rdata(&rr.rtype_with_data)
    )
}

pub fn rrs_json(rrs: &[ResourceRecord]) -> Value {
    Value::Array(rrs.iter().map(|r| json!(show_rr(r))).collect())
}

pub fn question_json(q: &Question) -> Value {
    json!(format!("{} {} {}", show_name(&q.name), q.qclass, q.qtype))
}

/// Multiset equality of record lists (order is not part of any property).
pub fn same_multiset(a: &[ResourceRecord], b: &[ResourceRecord]) -> bool {
    if a.len() != b.len() {
        return false;
    }
    let mut x: Vec<&ResourceRecord> = a.iter().collect();
    let mut y: Vec<&ResourceRecord> = b.iter().collect();
    x.sort();
    y.sort();
    x == y
}

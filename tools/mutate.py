#!/usr/bin/env python3
"""Mechanical mutants of the anchored source files, as a sanity test of the checks (not a registered check).

  tools/mutate.py list  OUTDIR [--per-file N] [--seed S]   write OUTDIR/mNNN.diff + OUTDIR/index.json
  tools/mutate.py run   OUTDIR                             for each mutant: apply to /repo, run the baseline suite;
                                                           if the suite still passes run the mapped quick checks; undo.
                                                           Results go to OUTDIR/results.jsonl (append; resumable).

A mutant that the suite kills is uninteresting ("would not pass the existing tests").  A mutant that survives
both the suite and every mapped check needs a human decision: equivalent, outside every property, or a blind spot.
Never run this while another check is running: it edits /repo's working tree (and restores it).
"""
import difflib, json, os, random, re, subprocess, sys

REPO = "/repo"
FILES = {
    "crates/dns-types/src/protocol/deserialise.rs": ["C03", "C16"],
    "crates/dns-types/src/protocol/serialise.rs": ["C04"],
    "crates/dns-types/src/protocol/types.rs": ["C16", "C04", "C03"],
    "crates/dns-types/src/zones/types.rs": ["C02", "C12"],
    "crates/dns-types/src/zones/deserialise.rs": ["C11", "C17"],
    "crates/dns-types/src/zones/serialise.rs": ["C13"],
    "crates/dns-types/src/hosts/types.rs": ["C14", "C12"],
    "crates/dns-types/src/hosts/deserialise.rs": ["C14", "C17"],
    "crates/dns-types/src/hosts/serialise.rs": ["C14"],
    "crates/dns-resolver/src/cache.rs": ["C05", "C15"],
    "crates/dns-resolver/src/local.rs": ["C01", "C10"],
    "crates/dns-resolver/src/recursive.rs": ["C06", "C07", "C08", "C10", "C18", "C01"],
    "crates/dns-resolver/src/forwarding.rs": ["C01", "C10", "C18", "C08"],
    "crates/dns-resolver/src/util/nameserver.rs": ["C08", "C18", "C07"],
    "crates/dns-resolver/src/context.rs": ["C08", "C10"],
    "crates/resolved/src/main.rs": ["C09", "C19"],
    "crates/resolved/src/fs.rs": ["C12", "C19"],
}

OPS = [
    (r"(?<![<>=!\-])<=(?!=)", "<"), (r"(?<![<>=!\-])>=(?!=)", ">"),
    (r"(?<=\s)<(?=\s)", "<="), (r"(?<=\s)>(?=\s)", ">="),
    (r"==", "!="), (r"!=", "=="),
    (r"&&", "||"), (r"\|\|", "&&"),
    (r"(?<=\s)\+ 1\b", "+ 0"), (r"(?<=\s)- 1\b", "- 0"),
    (r"\btrue\b", "false"), (r"\bfalse\b", "true"),
    (r"\bis_some\(\)", "is_none()"), (r"\bis_none\(\)", "is_some()"),
    (r"\bis_empty\(\)", "len() == 1"),
    (r"\bcontinue;", "{}"), (r"\bbreak;", "{}"),
    (r"\.min\(", ".max("), (r"\.max\(", ".min("),
    (r"\bsaturating_sub\b", "saturating_add"),
    (r"if !", "if "),
    # a forgotten statement: a stand-alone call that only has an effect
    (r"^(\s*)[A-Za-z_][A-Za-z_0-9\.]*\.(push|append|insert|extend|pop_question|push_question|sort|dedup|clear|retain|remove|truncate|merge|insert_merge|push_increase|push_decrease|change_priority)\(.*\);\s*$", "\\1();"),
]


def code_lines(path):
    """(index, line) of mutable lines: outside tests, hooks, comments, logging, attributes."""
    lines = open(os.path.join(REPO, path)).read().split("\n")
    out = []
    depth_skip = None
    in_tests = False
    for i, l in enumerate(lines):
        s = l.strip()
        if re.match(r"#\[cfg\(test\)\]", s) or re.match(r"(pub )?mod (tests|test_util)\b", s):
            in_tests = True
        if in_tests:
            continue
        # an item behind the hook guard: skip it whole (brace counting from the guarded item's first line)
        if depth_skip is not None:
            depth_skip[0] += l.count("{") - l.count("}")
            if "{" in l or ";" in l:
                depth_skip[1] = True
            if depth_skip[1] and depth_skip[0] <= 0:
                depth_skip = None
            continue
        if '#[cfg(any(feature = "test-util", test))]' in l:
            depth_skip = [0, False]
            continue
        if 'feature = "resolved_verif"' in l and "not(" not in l:
            depth_skip = [0, False]
            continue
        if "resolved_verif" in l or "verif_" in l or "verif::" in l:
            continue
        if s.startswith("//") or s.startswith("#[") or s.startswith("tracing::") or "tracing::" in s or s.startswith("use "):
            continue
        if "debug_assert" in s or "assert!" in s or "unreachable!" in s or "metrics" in s.lower():
            continue
        if "fn arbitrary" in s or "Arbitrary" in s:
            continue
        out.append((i, l))
    return lines, out


def candidates(path):
    lines, cl = code_lines(path)
    res = []
    for i, l in cl:
        # do not touch string literals / doc text
        code = l.split("//")[0]
        for pat, rep in OPS:
            for m in re.finditer(pat, code):
                # skip generics and arrows and lifetimes
                if pat in (r"(?<=\s)<(?=\s)", r"(?<=\s)>(?=\s)") and ("->" in code[max(0, m.start() - 2): m.end() + 1]):
                    continue
                if code.count('"') >= 2 and code.find('"') < m.start() < code.rfind('"'):
                    continue
                new = (m.expand(rep) if rep.startswith("\\1") else code[: m.start()] + rep + code[m.end():]) + l[len(code):]
                res.append((i, l, new, f"{pat} -> {rep}"))
    return lines, res


def make_diff(path, lines, i, new):
    a = [x + "\n" for x in lines]
    b = list(a)
    b[i] = new + "\n"
    d = difflib.unified_diff(a, b, "a/" + path, "b/" + path, n=3)
    return "".join(d)


def cmd_list(outdir, per_file, seed):
    os.makedirs(outdir, exist_ok=True)
    rnd = random.Random(seed)
    index = []
    n = 0
    for path, props in FILES.items():
        lines, cands = candidates(path)
        rnd.shuffle(cands)
        seen_lines = set()
        picked = []
        for c in cands:
            if c[0] in seen_lines:
                continue
            seen_lines.add(c[0])
            picked.append(c)
            if len(picked) >= per_file:
                break
        for (i, old, new, op) in picked:
            n += 1
            mid = f"m{n:03d}"
            open(os.path.join(outdir, mid + ".diff"), "w").write(make_diff(path, lines, i, new))
            index.append({"id": mid, "file": path, "line": i + 1, "op": op, "old": old.strip(), "new": new.strip(), "props": props})
    json.dump(index, open(os.path.join(outdir, "index.json"), "w"), indent=1)
    print(f"{n} mutants written to {outdir}")


def sh(cmd, timeout):
    try:
        p = subprocess.run(cmd, shell=True, executable="/bin/bash", capture_output=True, text=True, timeout=timeout)
        return p.returncode, p.stdout + p.stderr
    except subprocess.TimeoutExpired:
        return 124, "timeout"


def cmd_run(outdir):
    index = json.load(open(os.path.join(outdir, "index.json")))
    done = set()
    rp = os.path.join(outdir, "results.jsonl")
    if os.path.exists(rp):
        for l in open(rp):
            done.add(json.loads(l)["id"])
    for m in index:
        if m["id"] in done:
            continue
        rc, out = sh(f"git -C {REPO} status --porcelain", 60)
        if out.strip():
            print("refusing: /repo is not clean")
            sys.exit(2)
        res = {"id": m["id"], "file": m["file"], "line": m["line"], "op": m["op"], "new": m["new"]}
        rc, out = sh(f"git -C {REPO} apply {outdir}/{m['id']}.diff", 60)
        if rc != 0:
            res["status"] = "apply-failed"
        else:
            try:
                rc, out = sh(f"cd {REPO} && cargo test --workspace --offline 2>&1 | tail -40", 600)
                sh("pkill -9 -f '[/]repo/target/debug/deps/' ; true", 30)  # a test binary the mutant sent into a loop
                if "error" in out and "could not compile" in out:
                    res["status"] = "does-not-compile"
                elif "FAILED" in out or "panicked" in out or rc != 0 and "test result" not in out:
                    res["status"] = "killed-by-suite"
                elif rc == 124:
                    res["status"] = "suite-timeout"
                else:
                    res["status"] = "survives-suite"
                    verdicts = {}
                    for p in m["props"]:
                        rc, out = sh(f"cd /verif && cp evidence/{p}.json /verif/target/mut-ev-{p}.json; ./check {p} quick 2>&1 | tail -30; rc=${{PIPESTATUS[0]}}; cp /verif/target/mut-ev-{p}.json evidence/{p}.json; rm -f /verif/target/replays/{p}-* 2>/dev/null; exit $rc", 3600)
                        sigs = sorted(set(re.findall(r"signature=(\S+)", out)))[:4]
                        verdicts[p] = {"rc": rc, "sigs": sigs}
                        if rc == 1:
                            break
                    res["checks"] = verdicts
                    if any(v["rc"] == 1 for v in verdicts.values()):
                        res["status"] = "detected"
                    elif any(v["rc"] not in (0, 1) for v in verdicts.values()):
                        res["status"] = "inconclusive"
                    else:
                        res["status"] = "SURVIVES-CHECKS"
            finally:
                sh(f"git -C {REPO} checkout -- .", 60)
        open(rp, "a").write(json.dumps(res) + "\n")
        print(res["id"], res["status"], m["file"].split("/")[-1], m["line"], m["op"], flush=True)


if __name__ == "__main__":
    if sys.argv[1] == "list":
        per = int(sys.argv[sys.argv.index("--per-file") + 1]) if "--per-file" in sys.argv else 6
        seed = int(sys.argv[sys.argv.index("--seed") + 1]) if "--seed" in sys.argv else 1
        cmd_list(sys.argv[2], per, seed)
    elif sys.argv[1] == "run":
        cmd_run(sys.argv[2])

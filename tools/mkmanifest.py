#!/usr/bin/env python3
"""Regenerates /verif/MANIFEST.json from the table below (kept in one place so the
manifest stays consistent with what the engines really do)."""
import json, sys

ENGINES = {
    "e_wire": ("harness/src/bin/e_wire.rs", ["C03", "C04", "C16"],
               "differential monitor: real codec vs independent RFC 1035 decoder, pointer audit, subprocess crash/hang monitor"),
    "e_zone": ("harness/src/bin/e_zone.rs", ["C02"],
               "reference-model monitor: Zone::resolve vs flat-map RFC 1034/4592 lookup, exhaustive small scope + random zones"),
    "e_text": ("harness/src/bin/e_text.rs", ["C11", "C12", "C13", "C14", "C17"],
               "generator-knows-the-answer monitors over zone/hosts text, merge oracles, real CLI binaries, crash monitor"),
    "e_cache": ("harness/src/bin/e_cache.rs", ["C05", "C15"],
                "history monitor: operation sequences on the real cache under a virtual clock vs a sequential model; structural self-check; thread stress with conservation accounting"),
    "e_netsim": ("harness/src/bin/e_netsim/main.rs", ["C01", "C06", "C07", "C08", "C10", "C18"],
                 "fake network under tokio's paused clock: generated DNS universes, fault plans, exchange-log monitors"),
    "e_blackbox": ("harness/src/bin/e_blackbox.rs", ["C09", "C19"],
                   "real resolved binary over loopback sockets: exactly-once accounting, framing rules, reload generations"),
}

# id -> (engine, level, technique, text, note, design_ref)   — only properties whose check is built
CHECKS = {}

def add(pid, engine, level, technique, text, note, ref):
    CHECKS[pid] = dict(engine=engine, level=level, technique=technique, text=text, note=note, ref=ref)

add("C03", "e_wire", "exploration",
    "runtime differential monitoring + process-level crash/hang monitor",
    "Runs Message::from_octets (release build, 2 MiB threads, in a watched worker subprocess) on millions of generated inputs — "
    "semi-valid field-by-field assemblies with faults, random bytes, every truncation and 8 substitutions per byte of a valid corpus, "
    "and a fixed adversarial set incl. the maximal 8177-hop backward pointer chain — and compares accept/reject, decoded value and "
    "error ID with an independent iterative RFC 1035 decoder. Held = no disagreement, panic, abort, stack overflow or hang on the inputs observed.",
    "Trusts the harness's reference decoder (tolerance T2: pointer must target below the start of its name segment; pointers into the header legal; trailing bytes ignored). "
    "Exploration only: inputs not generated are not covered. Stack bound is judged on 2 MiB threads of this build profile (= tokio worker default).",
    "DESIGN.md §6 C03")
add("C04", "e_wire", "exploration",
    "runtime round-trip monitoring with independent decoder and compression-pointer audit",
    "Encodes generated messages (exhaustive header flag/opcode/rcode sweep, all 19 RDATA variants, shared and maximal names, 0..65535-byte RDATA, "
    "messages padded across the 16384 pointer boundary up to 64 KiB) with the real encoder and checks: own decoder returns the same value, "
    "independent decoder returns the same value, every pointer targets the start of an identical earlier name, and decode-encode-decode is stable on mutated byte strings that decode.",
    "Trusts the reference decoder and the Message PartialEq. Messages above 65535 bytes are outside the claim.",
    "DESIGN.md §6 C04")
add("C16", "e_wire", "exploration",
    "runtime monitoring of name constructors against length arithmetic (exhaustive at the 63/255 boundaries)",
    "Enumerates every sequence of <=8 label lengths over {1,2,61,62,63,64} with encoded total 245..262 and drives it through from_labels, from_dotted_string, "
    "from_relative_dotted_string, make_subdomain_of (every origin split) and the wire decoder (uncompressed and with a pointer at every boundary); accept/reject and the "
    "resulting labels are decided by arithmetic. Random part: ASCII label sequences, malformed dotted strings, case variants through Eq/Ord/Hash, Zones, Zone::resolve and SharedCache, "
    "subdomain relation vs label-wise suffix. M-NAME (well-formedness of every name coming out of the code) also runs inside the C03 engine on every accepted message.",
    "Exhaustive only for the enumerated boundary space; label contents are random. Non-ASCII label octets are outside the text round-trip claim.",
    "DESIGN.md §6 C16")

add("C02", "e_zone", "exploration",
    "runtime monitoring against an executable reference model (exhaustive small scope + random zones)",
    "Every Zone::resolve result is compared with an independent flat-map implementation of RFC 1034 §4.3.2 step 3 / RFC 4592: exhaustively for all zones with at most 3 (quick) / 4 (thorough) "
    "populated owner/wildcard slots under three apexes, authoritative or not, against every qname of depth <=3 over {a,b,c} x 9 qtypes; and on random zones (<=40 records, 18 types, cuts, apex NS, "
    "wildcards under ENTs and beside siblings). Variant, record multisets, owner names, TTLs (SOA-minimum clamp) and data must agree.",
    "Trusts the harness's flat reference model. Deviation D1 (records beneath / wildcard at a delegation point), wildcard NS and multiple CNAMEs per node are not generated. Exhaustive only within the stated small scope.",
    "DESIGN.md §6 C02")

add("C05", "e_cache", "exploration",
    "runtime monitoring of operation histories against a sequential model under a virtual clock",
    "Drives Cache and SharedCache through generated histories (insert, re-insert with another TTL, typed/ANY/unchecked lookups, prune, clock advances from 1 ns to 1 h) with the cache's clock "
    "replaced by a controllable one (hook H3), and judges every lookup with a sequential model: nothing served once its lifetime has elapsed, reported TTL never above the time left, "
    "TTL-0 records never stored through SharedCache, no duplicates, every unexpired unevicted record returned with its data. What is still held after evictions is read from the read-only snapshot hook (H4). "
    "Resolver leg: a recursive resolution against a generated universe (fake network, hook H1), the same question a little later (no upstream exchange, TTLs reduced and never above the time left) and after the RRset's longest TTL (must be fetched again). "
    "Alias leg: a question whose answer opens with a CNAME link learnt upstream is asked again once that link's TTL has elapsed (its target possibly still cached, nothing pruned): an answer that still opens with the link without an upstream exchange about the question name served it from the cache past its TTL. "
    "Thorough adds a Miri shard over short histories and a 2-thread run.",
    "Trusts the model and the clock hook (only Instant::now() inside cache.rs is replaced). Tolerance T3: a record in its last partial second may be missing. Sequential histories only; the threaded use is exercised under C15.",
    "DESIGN.md §6 C05")
add("C15", "e_cache", "exploration",
    "runtime monitoring: history checker + structural invariant hook + multi-thread stress with conservation accounting",
    "Same histories as C05 plus targeted re-insert scenarios; at every prune the four returned numbers, whole-name eviction, eviction only while over size, minimality and LRU order "
    "(with the stated ambiguity) are checked against the model; after every prune and every 7th operation the cache's own invariants are re-checked through the read-only hook (H4) and its contents "
    "must equal the model's. SharedCache is then hammered from 2/4/8 threads with globally unique values: structural self-check at barriers, conservation (inserted = held + expired + evicted) "
    "and every value returned by a get was inserted before that get returned.",
    "Trusts the model and hooks H3/H4. Schedule coverage for the threaded leg is whatever the stress produced (counts in the evidence); TSan/Miri shards are separate (DESIGN §9).",
    "DESIGN.md §6 C15")

add("C11", "e_text", "exploration",
    "runtime monitoring with a generator-knows-the-answer oracle and a single-fault corpus",
    "An abstract record list (17 RDATA types, wildcards, optional SOA anywhere) is rendered by the harness's own master-file printer using independently chosen RFC 1035 §5 variants "
    "($ORIGIN changes, absolute/relative/@ names, inherited owner/TTL/class, both TTL/class orders, parentheses over lines, comments, blank lines, tabs, CRLF, quoted/unquoted/\\X/\\DDD octets, "
    "labels over every ASCII octet but '.'); Zone::deserialise must return exactly that list after the documented normalisation (lower-casing, SOA-minimum TTL clamp). "
    "20 kinds of single faults ($INCLUDE, non-IN class in four forms, second SOA, wildcard SOA, owner outside the apex, relative name or @ without origin, first record without TTL, "
    "bad escapes, unbalanced/nested parentheses, missing RDATA) injected into valid files must be rejected; the shipped config/zones files are a fixed regression corpus.",
    "Trusts the harness's printer and expectation function. T6: forms ambiguous in the grammar itself are not generated; parentheses only at whitespace-separated token boundaries; TXT/HINFO/WKS/NULL RDATA is the project's single opaque token.",
    "DESIGN.md §6 C11")
add("C12", "e_text", "exploration",
    "runtime monitoring: union oracle over merged zones + reference-model answers + real files through the configuration loader",
    "1..5 generated zone files for one apex (with/without SOA, overlapping and duplicate records, wildcard sets present in some files only) are merged as the loader merges them; "
    "records, wildcard records and SOA must be the set-union of the individually parsed parts with exactly one SOA (the last), and every question must be answered as the C02 reference model answers on that union. "
    "Real-files leg: explicit files plus -Z/-A directories (lexical order different from creation order) through resolved::fs::load_zone_configuration: surviving SOA serial, per-file records, union RRset, hosts last-writer-wins in the non-authoritative root zone.",
    "Trusts the C02 reference model and the per-file parse (judged by C11). Files sharing an apex are authoritative files for that apex or SOA-less root files, which is what the loader can produce.",
    "DESIGN.md §6 C12")
add("C13", "e_text", "exploration",
    "runtime round-trip monitoring over hostile octets (library and real ztoz binary)",
    "Zones obtained by parsing generated text whose labels and RDATA names range over every ASCII octet expressible in text (quotes, backslash, ';', parentheses, whitespace and control characters, '@', '*', '$', DEL), "
    "RDATA octets over all 256 values, authoritative and not, root and non-root apex; and zones built through insert/insert_wildcard from such names. Each: deserialise(serialise(z)) equals z component-wise and by PartialEq, "
    "and normalising again yields the same lines. A sample goes through the real ztoz binary twice.",
    "T7: API-built zones are authoritative or root-apex and hold only types the syntax can express. Record order inside a name is HashMap order, so idempotence is judged on the multiset of lines.",
    "DESIGN.md §6 C13")
add("C14", "e_text", "exploration",
    "runtime monitoring with a generator-knows-the-answer oracle (library and real htoh/htoz/ztoh binaries)",
    "Generated hosts files (IPv4/IPv6 in several textual forms, 1..5 names per line, mixed separators, comments after address / name / whitespace, blank, address-only and %iface lines, conflicting mappings, CRLF) "
    "must parse to the mapping they denote (last writer wins per name and family); then serialise/deserialise, Zone::from (one A/AAAA per mapping, TTL 5, non-authoritative root), Hosts::try_from and Zone::resolve per mapping. "
    "11 kinds of malformed mapping lines must be rejected. A sample goes through htoh twice and through ztoh --strict ∘ htoz.",
    "Trusts the generator's own model of hosts(5). Address-only lines with a malformed address are neither required to be accepted nor rejected (not generated).",
    "DESIGN.md §6 C14")
add("C17", "e_text", "exploration",
    "runtime crash/hang monitoring in a watched subprocess (2 MiB threads, release build)",
    "Random Unicode, token soup from a dictionary of directives/mnemonics/delimiters/escapes/huge numbers/long labels/NUL/BOM/non-ASCII digits, grammar-aware mutations and random cuts of valid generated zone and hosts files, "
    "and structured extremes (10^5 parentheses, 1 MiB token, thousands of labels) are fed to Zone::deserialise and Hosts::deserialise; a sample is written to disk (including non-UTF-8 bytes) and loaded through load_zone_configuration. "
    "Panic = caught per case; abort / stack overflow / hang = seen by the parent process, which re-runs in trace mode to name the input.",
    "Exploration only. Hang is judged by a 60 s per-input wall limit (>10^4 x the typical cost) inside the worker.",
    "DESIGN.md §6 C17")

add("C01", "e_netsim", "exploration",
    "runtime monitoring: reference-model oracle + provenance tags + upstream exchange log (fake network, hook H1)",
    "Generated configurations (1..4 nested zones, authoritative and hosts-style, CNAMEs in/across/out of zones, wildcards, delegations, ENTs, blocklist entries), a cache pre-seeded with conflicting records "
    "for the very names the zones own, with cache-only aliases pointing at zone-owned names (the cache also holding its own records for the target), and an upstream that answers every question with differently tagged data; every name x 9 qtypes in authoritative-only, recursive and forwarding mode through dns_resolver::resolve. "
    "The most specific zone (own computation) and the C02 reference lookup decide what must come back: exact records, AA + zone SOA, name error only from an authoritative zone, no upstream exchange for locally answered questions, "
    "delegated questions sent only to the delegation's servers; every returned record owned by an authoritative zone's name must be that zone's data (unique RDATA tags per source).",
    "Trusts the C02 reference model. T1 (no AA demanded once a chain leaves authoritative data), D1. Upstream in these runs never aliases into locally authoritative names in one reply (that acceptance is the business of C06).",
    "DESIGN.md §6 C01")
add("C06", "e_netsim", "exploration",
    "runtime monitoring of the reply filter against an allowed-set oracle (direct via hook H2 and end-to-end via hook H1)",
    "Millions of adversarial replies (on/off-path CNAMEs, loops, NS for ancestors of every depth / non-ancestors / foreign owners naming the same hosts, glue for named and unnamed hosts, data at wrong names and of wrong types, several SOAs, unknown types and classes) "
    "are given to the real filter with delegation depths 0..5; everything it keeps, the continuation name and the delegation must lie in the allowed set computed from the statement (section-agnostic, every CNAME branch). "
    "End to end: the first upstream reply of a real resolution is such a reply (later ones REFUSED); what is newly in the cache and in the answer must lie in the allowed set; replies with a wrong ID / QR / opcode / TC / rcode / question (UDP and TCP retry) must change nothing.",
    "The oracle is deliberately at least as permissive as the statement. Only the recursive resolver is claimed (forwarding mode trusts its forwarder by design).",
    "DESIGN.md §6 C06")
add("C07", "e_netsim", "exploration",
    "runtime monitoring against generated DNS universes with fake authoritative servers (hook H1) and a globally computed expectation",
    "Consistent hierarchies (2..12 zones, depth 1..5, 1..3 name servers per zone in-bailiwick with glue or hosted elsewhere with/without glue, v4/v6/dual hosts, ENT apexes, cross-zone alias chains up to 8 links, ladders of 17..22 glueless alias links, sibling zones hosting each other's only name server behind the parent's glue) are served by RFC 1034 §4.3.2 fake servers through the transport hook; "
    "sequences of 1..6 questions share one cache, in all four protocol modes. Each result must equal what the authoritative servers hold (alias chain in order, final RRset as a multiset with TTL <=, zone SOA for NODATA/NXDOMAIN); the exchange log must show strictly deeper zones for the user's question.",
    "Trusts the universe generator's consistency and its expectation function. T4 (one address per family per host, glue == authoritative data, CNAME-type questions may return any chain prefix). Cache clock frozen.",
    "DESIGN.md §6 C07")
add("C08", "e_netsim", "fault_enumeration",
    "fault injection at the transport hook under tokio's paused clock; enumeration of fault plans over the first k exchanges; process-level crash/hang monitor",
    "Every assignment of 12 principal faults (ok, drop, 4.9 s / 5.1 s delay, garbage, cut reply, wrong ID, QR=0, TC=1, wrong question, SERVFAIL, empty NOERROR) to the first 3 (quick) / 4 (thorough) upstream exchanges x 6 universes x {recursive, forwarding}, plus random plans of length <= 40 over 22 faults "
    "and hostile universes (everything slow so that only the 60 s budget ends the run, circular referrals, alias loop and 40-link alias chain across replies, unresolvable name server). Judged on virtual time: resolve() returns within 60 s, every exchange future is released within 5 s, no panic/abort/hang, every record of an Ok answer was supplied by some reply or by local data.",
    "Enumeration is complete only for the stated plan space; delays are virtual (tokio paused clock), so real-socket timing is out of scope here (C18 thorough has a real-socket shard).",
    "DESIGN.md §6 C08")
add("C10", "e_netsim", "exploration",
    "runtime monitoring of answer structure over generated alias graphs (zones, cache, upstream via hook H1); crash monitor on 2 MiB threads",
    "Alias graphs (chains of 0..40 links, cycles, rho shapes, other-type records beside CNAMEs) with every link and the final RRset independently placed in an authoritative zone, a second one, the non-authoritative root zone, the cache or upstream; A/TXT/MX questions (CNAME/ANY for totality) in all three modes, each asked twice on one cache. "
    "Every answer: leading CNAMEs form a path from the question name, no owner twice, each record is the one its source holds, only asked-type records of the final target follow, nothing repeated; acyclic chains <= 28 links obtainable in the mode come back complete; no panic, hang or stack overflow.",
    "T5: one reply's internal order is the sender's. Each alias name lives in exactly one source. In forwarding mode 'obtainable' means all links after the first upstream one are upstream.",
    "DESIGN.md §6 C10")
add("C18", "e_netsim", "exploration",
    "runtime monitoring of the upstream exchange log (destinations, ports, order of address questions) with held-address snapshots at exchange time",
    "Universes whose name servers are v4-only, v6-only or dual, with addresses learnt from hints, glue, a pre-seeded cache or recursive lookup; four protocol modes x ports {1,53,5353,65535}, one run in six in forwarding mode. "
    "Per exchange: destination port = configured port; only-v4/only-v6 never use the other family; under prefer-X, when a host is contacted at its other-family address, zones and unexpired cache (read through the read-only snapshot) hold no X address of it; "
    "the first upstream address question of a name-server lookup is for the preferred family; forwarding mode talks to the forwarder only.",
    "Destination -> host is a function because generated hosts have unique addresses. The real socket send/receive path is bypassed by the hook (covered by the black-box engine).",
    "DESIGN.md §6 C18")

add("C09", "e_blackbox", "exploration",
    "runtime monitoring of the real binary over loopback sockets: exactly-once accounting per (socket, ID), framing rules, differential against the in-process resolver",
    "The release `resolved` binary is started in authoritative-only mode and with recursion offered (forwarding to a small stateless fake forwarder on loopback); 8 client threads, each owning its sockets and issuing strictly increasing IDs, send ~3*10^5 messages (quick): "
    "zone questions (large RRsets, alias chains and loops, wildcards, delegation, NXDOMAIN, hosts, unanswerable) x 11 qtypes x RD, every qtype and 8 classes, QDCOUNT 0..3, 0..11-byte datagrams, all 65536 flag-octet values, generated messages incl. responses, random and mutated queries; "
    "over TCP additionally the maximal pointer chain, huge counts, 64 KiB messages and five framing variants. Every message must get exactly one reply (none for QR=1 / <2 bytes) with the rules of the statement checked from the bytes sent; UDP reply = TCP reply cut at 512 with TC; "
    "TCP prefix = length; sections, AA and RCODE = dns_resolver::resolve on the same files in process; answer-section structure; the process must stay up (liveness per chunk, exit status, stderr).",
    "Parseability is decided by the harness's own decoder. Missing UDP replies are retransmitted up to 3 times before they count. A TCP connection reset caused by bytes the server never read makes that single case inconclusive. Known finding: delegation NS set in the answer section (known_findings.json).",
    "DESIGN.md §6 C09")
add("C19", "e_blackbox", "exploration",
    "runtime monitoring of the real binary: generation-tagged configurations, SIGUSR1 reloads under query load, offline check of the timed query log against the generations that can have been in force",
    "The release binary runs with explicit zone files, a -Z directory, a hosts file and a -A directory. Every RDATA carries a generation number, names exist only in their generation, and an alias in one file targets a name that exists only in the same generation of another file (a mixed read shows inside one answer). "
    "25 (quick) / 1500 (thorough) steps rewrite all files (temp+rename, only between reloads) or break the configuration (bad file, dangling symlink, listed file removed), then send 1..3 SIGUSR1; 8 client threads query 7 probes throughout over UDP and TCP with send/receive times; the server's 'received'/'done' lines are time-stamped on arrival. "
    "Every answer must be that of one generation that can have been in force between send and receive; after 'done - success' only the new one, after 'done - failure' only the old one; no mixed answers, no unanswered query, the process stays up. A 30k-record file makes reloads take ~0.1-0.2 s so that tens of thousands of queries overlap reloads.",
    "Schedule coverage is what the stress produced (overlapping queries are counted in the evidence). With the zones lock held across a whole request a mixed answer needs a code change; the window is then microseconds wide and is hit with high probability, not certainty.",
    "DESIGN.md §6 C19")

UNDER_CONSTRUCTION = "check not built yet in this revision (see DESIGN.md §6); the technique applies, this is not a claim of inapplicability"

ALL = ["C%02d" % i for i in range(1, 20)]

def main():
    checks = []
    for pid in ALL:
        if pid not in CHECKS:
            continue
        c = CHECKS[pid]
        checks.append({
            "property_id": pid,
            "quick_cmd": f"./check {pid} quick",
            "thorough_cmd": f"./check {pid} thorough",
            "evidence_file": f"/verif/evidence/{pid}.json",
            "replay_cmd_template": f"./check {pid} quick --replay {{path}}",
            "engine": c["engine"],
            "level_claimed": {"category": c["level"], "text": c["text"], "design_ref": c["ref"]},
            "level_note": c["note"],
            "technique": c["technique"],
        })
    engines = []
    for name, (path, props, kind) in ENGINES.items():
        served = [p for p in props if p in CHECKS]
        if served:
            engines.append({"name": name, "path": path, "serves_properties": served, "kind_free_text": kind})
    manifest = {
        "version": 1,
        "setup_cmd": "./setup.sh",
        "hooks": {
            "guard": "cargo feature `resolved_verif` of crate dns-resolver (cfg(feature = \"resolved_verif\")), off by default",
            "enable": "the harness crate depends on dns-resolver with features = [\"resolved_verif\"] (harness/Cargo.toml); the repository's own binaries are built without it",
            "baseline_off_cmd": "cd /repo && cargo test --workspace --no-fail-fast --offline",
            "source_commits": HOOK_COMMITS,
            "add_only": True,
        },
        "engines": engines,
        "checks": checks,
        "notes": "Technique family: runtime monitoring and sanitizers. exit 0 = held on what was observed, 1 = VIOLATION (replay on disk), 2 = inconclusive (build failure, watchdog, too few non-trivial cases). Known findings: /verif/known_findings.json.",
        "not_applicable": [{"property_id": p, "reason": UNDER_CONSTRUCTION} for p in ALL if p not in CHECKS],
    }
    json.dump(manifest, open("/verif/MANIFEST.json", "w"), indent=1)
    print("wrote MANIFEST.json:", len(checks), "checks,", len(manifest["not_applicable"]), "not yet claimed")

HOOK_COMMITS = ["8aa7187", "21f2dc5", None, "a0a5309"]

if __name__ == "__main__":
    import subprocess
    log = subprocess.run(["git", "-C", "/repo", "log", "--format=%h %s"], capture_output=True, text=True).stdout.splitlines()
    HOOK_COMMITS = [l.split()[0] for l in log if l.split(" ", 1)[1].startswith("verif hook:")][::-1]
    main()

#!/bin/bash
# tools/shards.sh <ID> <seed>   — sanitizer / interpreter shards of the thorough tier (DESIGN §9, §12.6).
# Runs after the property's engine has passed.  Appends what was observed to the evidence file.
# exit 0 = no report; 1 = a sanitizer/interpreter report (VIOLATION line printed); shards that cannot run
# here are recorded as "unavailable" and do not change the verdict.
set -u
ID="$1"; SEED="${2:-1}"
cd /verif || exit 2
export CARGO_NET_OFFLINE=true
OUT=/verif/target/shards/$ID
rm -rf "$OUT"; mkdir -p "$OUT"
RESULTS=()   # json objects
FAIL=0

add_result() { RESULTS+=("$1"); }

miri_shard() { # <bin> <procs> <args...>
  local bin="$1" procs="$2"; shift 2
  local t0=$(date +%s)
  # first process builds (and runs), the others follow in parallel
  ( cd /verif/sanitize && MIRIFLAGS="-Zmiri-disable-isolation" cargo +nightly miri run --bin "$bin" -- "$SEED" "$@" ) >"$OUT/miri-$bin-0.log" 2>&1
  local pids=()
  for i in $(seq 1 $((procs-1))); do
    ( cd /verif/sanitize && MIRIFLAGS="-Zmiri-disable-isolation" cargo +nightly miri run --bin "$bin" -- "$((SEED*1000+i))" "$@" ) >"$OUT/miri-$bin-$i.log" 2>&1 &
    pids+=($!)
  done
  for p in "${pids[@]}"; do wait "$p"; done
  local ok=$(grep -l -E "MIRI-WIRE-OK|SANITIZE-CACHE-OK" "$OUT"/miri-$bin-*.log 2>/dev/null | wc -l)
  local ub=$(grep -l -E "Undefined Behavior|[Dd]ata race|panicked at|assertion .* failed" "$OUT"/miri-$bin-*.log 2>/dev/null | head -1)
  local dt=$(( $(date +%s) - t0 ))
  if [ -n "$ub" ]; then
    echo "VIOLATION property=$ID replay=$ub"
    echo "  signature: $ID:miri-report:$bin"
    FAIL=1
    add_result "{\"tool\":\"miri\",\"workload\":\"$bin $*\",\"processes\":$procs,\"completed\":$ok,\"report\":\"$ub\",\"wall_s\":$dt}"
  elif [ "$ok" -eq 0 ]; then
    add_result "{\"tool\":\"miri\",\"workload\":\"$bin $*\",\"processes\":$procs,\"completed\":0,\"status\":\"unavailable (see $OUT)\",\"wall_s\":$dt}"
  else
    local summary=$(grep -h -E "MIRI-WIRE-OK|SANITIZE-CACHE-OK" "$OUT"/miri-$bin-0.log | head -1)
    add_result "{\"tool\":\"miri\",\"workload\":\"$bin $*\",\"processes\":$procs,\"completed\":$ok,\"reports\":0,\"first_process\":\"$summary\",\"wall_s\":$dt}"
  fi
}

tsan_shard() {
  local t0=$(date +%s)
  ( cd /verif/sanitize && RUSTFLAGS="-Zsanitizer=thread" CARGO_TARGET_DIR=/verif/target/sanitize-tsan cargo +nightly build -Zbuild-std --target x86_64-unknown-linux-gnu --release --bin miri_cache ) >"$OUT/tsan-build.log" 2>&1
  local bin=/verif/target/sanitize-tsan/x86_64-unknown-linux-gnu/release/miri_cache
  if [ ! -x "$bin" ]; then
    add_result "{\"tool\":\"tsan\",\"status\":\"unavailable: build failed (see $OUT/tsan-build.log)\"}"
    return
  fi
  local runs=0 rep=""
  for t in 2 4 8; do
    for r in 1 2 3; do
      TSAN_OPTIONS="halt_on_error=1 exitcode=66" "$bin" "$((SEED+r))" 30 "$t" 30000 >"$OUT/tsan-$t-$r.log" 2>&1
      rc=$?
      runs=$((runs+1))
      if [ $rc -ne 0 ]; then rep="$OUT/tsan-$t-$r.log"; fi
    done
  done
  local dt=$(( $(date +%s) - t0 ))
  if [ -n "$rep" ]; then
    echo "VIOLATION property=$ID replay=$rep"
    echo "  signature: $ID:tsan-report-or-selfcheck-failure"
    FAIL=1
    add_result "{\"tool\":\"tsan\",\"runs\":$runs,\"report\":\"$rep\",\"wall_s\":$dt}"
  else
    add_result "{\"tool\":\"tsan\",\"workload\":\"SharedCache from 2/4/8 threads x 30000 ops, 3 seeds each, after 30 sequential histories\",\"runs\":$runs,\"reports\":0,\"wall_s\":$dt}"
  fi
}

fuzz_shard() { # <target> <seconds>
  local target="$1" secs="$2"
  local t0=$(date +%s)
  ( cd /verif/harness && CARGO_TARGET_DIR=/verif/target/fuzz cargo +nightly fuzz build "$target" ) >"$OUT/fuzz-build-$target.log" 2>&1
  local bin=/verif/target/fuzz/x86_64-unknown-linux-gnu/release/$target
  if [ ! -x "$bin" ]; then
    add_result "{\"tool\":\"libfuzzer+asan\",\"target\":\"$target\",\"status\":\"unavailable: build failed (see $OUT/fuzz-build-$target.log)\"}"
    return
  fi
  local corpus=/verif/target/fuzz-corpus/$target art=$OUT/artifacts-$target/
  mkdir -p "$corpus" "$art"
  ( cd "$OUT" && "$bin" "$corpus" -max_total_time="$secs" -timeout=10 -fork=16 -max_len=8192 -artifact_prefix="$art" -seed="$SEED" ) >"$OUT/fuzz-$target.log" 2>&1
  # A timeout or slow unit seen by one of 16 forked ASan processes on a loaded machine is a wall-clock observation,
  # not a verdict: replay each such input alone with a generous limit; only one that is slow alone stays an artifact.
  local slow_under_load=0
  for f in "$art"timeout-* "$art"slow-unit-*; do
    [ -e "$f" ] || continue
    if timeout 120 "$bin" "$f" >"$OUT/fuzz-$target-replay.log" 2>&1; then
      rm -f "$f"; slow_under_load=$((slow_under_load + 1))
    fi
  done
  local crashes=$(ls "$art" 2>/dev/null | wc -l)
  local execs=$(grep -oE "^#[0-9]+" "$OUT/fuzz-$target.log" | tail -1 | tr -d '#')
  local cov=$(grep -oE "cov: [0-9]+" "$OUT/fuzz-$target.log" | tail -1 | cut -d' ' -f2)
  local dt=$(( $(date +%s) - t0 ))
  if [ "$crashes" -gt 0 ]; then
    local first="$art$(ls "$art" | head -1)"
    mkdir -p /verif/replays/$ID; cp "$first" /verif/replays/$ID/ 2>/dev/null
    echo "VIOLATION property=$ID replay=/verif/replays/$ID/$(basename "$first")"
    echo "  signature: $ID:fuzz:$target:$(basename "$first" | cut -d- -f1)"
    FAIL=1
  fi
  add_result "{\"tool\":\"libfuzzer+asan\",\"target\":\"$target\",\"executions\":${execs:-0},\"coverage_edges\":${cov:-0},\"artifacts\":$crashes,\"slow_only_under_load\":$slow_under_load,\"seconds\":$secs,\"wall_s\":$dt}"
}

sockets_shard() { # real resolved binary against fake name servers on loopback (port trap on :53)
  local t0=$(date +%s)
  ( cd /verif/harness && cargo build --release --bin e_sockets ) >"$OUT/sockets-build.log" 2>&1
  /verif/target/harness/release/e_sockets "$SEED" "${VERIF_SOCKET_UNIVERSES:-24}" 14 >"$OUT/sockets.log" 2>&1
  local rc=$?
  local line=$(grep "^SOCKETS-RESULT " "$OUT/sockets.log" | tail -1 | sed 's/^SOCKETS-RESULT //')
  [ -z "$line" ] && line='{"tool":"real sockets","status":"unavailable: no result line"}'
  if [ $rc -eq 1 ]; then
    echo "VIOLATION property=$ID replay=$OUT/sockets.log"
    echo "  signature: $ID:real-sockets:traffic-on-port-53-or-wrong-answer"
    FAIL=1
  fi
  add_result "$line"
}

case "$ID" in
  C18) sockets_shard ;;
  C03) miri_shard miri_wire 16 40; fuzz_shard wire_diff "${VERIF_FUZZ_SECS:-300}" ;;
  C04) miri_shard miri_wire 8 40; fuzz_shard wire_diff "${VERIF_FUZZ_SECS:-180}" ;;
  C05) miri_shard miri_cache 8 12 2 60 ;;
  C15) miri_shard miri_cache 8 12 2 80; tsan_shard ;;
  C17) fuzz_shard zone_text "${VERIF_FUZZ_SECS:-240}"; fuzz_shard hosts_text "${VERIF_FUZZ_SECS:-120}" ;;
  *) exit 0 ;;
esac

# append to the evidence file
FAIL=$FAIL python3 - "$ID" "${RESULTS[@]}" <<'EOF'
import json, sys
pid = sys.argv[1]
shards = []
for r in sys.argv[2:]:
    try:
        shards.append(json.loads(r))
    except Exception as e:
        shards.append({"raw": r, "error": str(e)})
p = f"/verif/evidence/{pid}.json"
e = json.load(open(p))
e["coverage"]["sanitizer_shards"] = shards
import os
if os.environ.get("FAIL") == "1":
    e["violations"] = int(e.get("violations", 0)) + 1
json.dump(e, open(p, "w"), indent=2)
print("shards:", json.dumps(shards))
EOF
exit $FAIL

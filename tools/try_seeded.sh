#!/bin/bash
# tools/try_seeded.sh <patch.diff> <ID> [ID...]   — apply a seeded change to /repo, run the quick checks named,
# undo the change, restore the evidence files.  Prints one line per check: DETECTED / MISSED / INCONCLUSIVE.
set -u
PATCH="$1"; shift
cd /verif || exit 2
if ! git -C /repo diff --quiet; then echo "refusing: /repo has uncommitted changes"; exit 2; fi
if ! git -C /repo apply --check "$PATCH" 2>/dev/null; then echo "patch does not apply"; exit 2; fi
git -C /repo apply "$PATCH"
mkdir -p /verif/target/seeded-logs
TIER="${SEEDED_TIER:-quick}"
for ID in "$@"; do
  cp -f evidence/$ID.json /verif/target/seeded-logs/$ID.evidence.bak 2>/dev/null
  LOG=/verif/target/seeded-logs/$(basename "$(dirname "$PATCH")")-$ID.log
  ./check "$ID" "$TIER" >"$LOG" 2>&1
  RC=$?
  SIG=$(grep -m3 "signature:" "$LOG" | sed 's/^ *signature: //' | tr '\n' ';')
  case $RC in
    1) echo "DETECTED  $ID  rc=1  $SIG" ;;
    0) echo "MISSED    $ID  rc=0  $(grep -c KNOWN-FINDING "$LOG") known" ;;
    *) echo "INCONCLUSIVE $ID rc=$RC $(tail -n 2 "$LOG" | tr '\n' ' ')" ;;
  esac
  cp -f /verif/target/seeded-logs/$ID.evidence.bak evidence/$ID.json 2>/dev/null
done
git -C /repo checkout -- .
git -C /repo status --short | head -3
rm -rf /verif/replays/*/ 2>/dev/null

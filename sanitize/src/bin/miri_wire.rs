//! Miri shard for C03/C04: the real codec on valid, mutated and adversarial inputs (small counts:
//! Miri is ~10^4 times slower than native).  Any undefined behaviour or data race in the code the
//! workload reaches (incl. `bytes`, `hashbrown`) makes Miri abort with a report.
//! usage: miri_wire <seed> <n>
use dns_types::protocol::types::Message;
use verif_sanitize::genmsg::*;
use verif_sanitize::refmodel::wire as refw;
use verif_sanitize::rng::Rng;

fn main() {
    let args: Vec<String> = std::env::args().collect();
    let seed: u64 = args.get(1).and_then(|s| s.parse().ok()).unwrap_or(1);
    let n: usize = args.get(2).and_then(|s| s.parse().ok()).unwrap_or(200);
    let mut rng = Rng::new(seed);
    let mut decoded = 0usize;
    let mut rejected = 0usize;
    for i in 0..n {
        let m = gen_message(&mut rng, 3, 24);
        let bytes = m.to_octets().expect("encode").to_vec();
        // round trip
        let back = Message::from_octets(&bytes).expect("own encoding decodes");
        assert_eq!(back, m, "round trip");
        let (r, _) = refw::decode(&bytes).expect("reference decodes");
        assert_eq!(r, refw::rmsg_of(&m), "reference agrees");
        decoded += 1;
        // mutations and truncations
        for k in 0..6 {
            let mut b = bytes.clone();
            match k {
                0 => b.truncate(rng.below(b.len() + 1)),
                1 => {
                    let p = rng.below(b.len());
                    b[p] = 0xC0;
                }
                _ => {
                    let p = rng.below(b.len());
                    b[p] = rng.next_u32() as u8;
                }
            }
            let a = Message::from_octets(&b);
            let r = refw::decode(&b);
            assert_eq!(a.is_ok(), r.is_ok(), "accept/reject differs on {b:02x?}");
            if let (Ok(a), Ok((r, _))) = (&a, &r) {
                assert_eq!(&refw::rmsg_of(a), r);
                decoded += 1;
            } else {
                rejected += 1;
            }
        }
        // a short pointer chain (deep chains are the native engine's business)
        if i % 50 == 0 {
            let mut msg = vec![0u8, 1, 0x80, 0, 0, 1, 0, 0, 0, 0, 0, 0];
            // name at 12: root; then 20 pointers each to the previous
            let mut chain = vec![0u8];
            let mut prev = 12usize;
            for _ in 0..20 {
                let here = 12 + chain.len();
                chain.push(0xC0);
                chain.push(prev as u8);
                prev = here;
            }
            msg.extend_from_slice(&chain);
            let _ = Message::from_octets(&msg);
        }
    }
    println!("MIRI-WIRE-OK seed={seed} messages={n} decoded={decoded} rejected={rejected}");
}

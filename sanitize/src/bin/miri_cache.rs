//! Miri / ThreadSanitizer shard for C05/C15: short operation histories on the real cache under the
//! virtual clock, then SharedCache used from several threads.  usage: miri_cache <seed> <histories> <threads> <ops>
use dns_resolver::cache::{verif_clock, Cache, SharedCache};
use dns_types::protocol::types::*;
use std::net::Ipv4Addr;
use verif_sanitize::rng::Rng;

fn name(i: usize) -> DomainName {
    DomainName::from_dotted_string(&format!("n{i}.sanitize.test.")).unwrap()
}

fn rr(n: usize, v: u8, ttl: u32, txt: bool) -> ResourceRecord {
    ResourceRecord {
        name: name(n),
        rtype_with_data: if txt {
            RecordTypeWithData::TXT {
                octets: bytes::Bytes::copy_from_slice(&[b'v', v]),
            }
        } else {
            RecordTypeWithData::A {
                address: Ipv4Addr::new(172, 16, 0, v),
            }
        },
        rclass: RecordClass::IN,
        ttl,
    }
}

fn main() {
    let args: Vec<String> = std::env::args().collect();
    let seed: u64 = args.get(1).and_then(|s| s.parse().ok()).unwrap_or(1);
    let histories: usize = args.get(2).and_then(|s| s.parse().ok()).unwrap_or(20);
    let threads: usize = args.get(3).and_then(|s| s.parse().ok()).unwrap_or(2);
    let ops: usize = args.get(4).and_then(|s| s.parse().ok()).unwrap_or(200);
    let mut rng = Rng::new(seed);
    let mut prunes = 0usize;
    for _ in 0..histories {
        let mut now: u64 = 1_000_000_000;
        verif_clock::set_thread_nanos(Some(now));
        let mut c = Cache::with_desired_size(rng.range(1, 6));
        for _ in 0..60 {
            match rng.below(6) {
                0 | 1 => c.insert(&rr(rng.below(4), rng.below(3) as u8, *rng.pick(&[1u32, 2, 5]), rng.bool())),
                2 => {
                    let _ = c.get(&name(rng.below(4)), QueryType::Wildcard);
                }
                3 => {
                    let _ = c.get(&name(rng.below(4)), QueryType::Record(RecordType::A));
                }
                4 => {
                    let _ = c.prune();
                    prunes += 1;
                    let snap = c.verif_snapshot();
                    assert!(snap.problems.is_empty(), "self-check: {:?}", snap.problems);
                }
                _ => {
                    now += *rng.pick(&[1u64, 500_000_000, 1_000_000_000, 3_000_000_000]);
                    verif_clock::set_thread_nanos(Some(now));
                }
            }
        }
    }
    verif_clock::set_thread_nanos(None);
    // threads on the shared cache (real clock)
    let cache = SharedCache::with_desired_size(8);
    let mut hs = Vec::new();
    for t in 0..threads {
        let cache = cache.clone();
        let mut rng = rng.fork(t as u64);
        hs.push(std::thread::spawn(move || {
            for i in 0..ops {
                match rng.below(5) {
                    0 | 1 => cache.insert(&rr(rng.below(6), (i % 250) as u8, 1 + rng.below(3) as u32, true)),
                    2 => {
                        let _ = cache.get(&name(rng.below(6)), QueryType::Wildcard);
                    }
                    3 => {
                        let _ = cache.get(&name(rng.below(6)), QueryType::Record(RecordType::TXT));
                    }
                    _ => {
                        let _ = cache.prune();
                    }
                }
            }
        }));
    }
    for h in hs {
        h.join().unwrap();
    }
    let snap = cache.verif_snapshot();
    assert!(snap.problems.is_empty(), "self-check after threads: {:?}", snap.problems);
    assert_eq!(snap.current_size, snap.entries.len());
    println!("SANITIZE-CACHE-OK seed={seed} histories={histories} prunes={prunes} threads={threads} ops_per_thread={ops} held={}", snap.entries.len());
}

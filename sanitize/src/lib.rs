//! Small workloads for the interpreter / sanitizer shards (Miri, ThreadSanitizer).
//! The generator and reference-decoder sources are shared with the harness by path.

#[path = "/verif/harness/src/rng.rs"]
pub mod rng;

pub mod refmodel {
    #[path = "/verif/harness/src/refmodel/wire.rs"]
    pub mod wire;
}

#[path = "/verif/harness/src/genmsg.rs"]
pub mod genmsg;

#!/bin/bash
# Build the framework offline from files on disk.
set -e
cd /verif
export CARGO_NET_OFFLINE=true
mkdir -p target evidence replays
(cd harness && cargo build --release)
cargo build --release --offline --manifest-path /repo/Cargo.toml \
  -p resolved -p htoh -p htoz -p ztoh -p ztoz --target-dir /verif/target/repo-bins
echo "setup ok"
